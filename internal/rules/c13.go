package rules

import (
	"fmt"
	"go/token"
	"go/types"
	"sort"
	"strconv"
	"strings"

	"golang.org/x/tools/go/ssa"

	"slockverif/internal/core"
)

func init() { Registry["C13"] = checkC13 }

func checkC13(p *core.Prog, r *core.Report) {
	r.Explanation = "Decides a stated domain of crash sites reachable from client input (connection goroutines have no recover(), checked as a fact): (R1) in every function of server/ and protocol/ that receives a text command's argument list ([]string parameter), every index args[c], args[v+c] and re-slice args[c:] is covered on its path by a length test of that list (len(args) lower bound from ==, <, <=, != tests in either polarity; v+c forms by a test of the same v against len(args)); a guard on a different expression of v does not count; (R2) every result code has an ERROR_MSG entry; (R3) the optional pointers LockCommand.Data, LockResultCommand.Data, LockManager.currentData and Lock.data are dereferenced (field access or method call) only on paths that tested them non-nil; (R4) constant indexes into client value frames (LockCommandData.Data, origin byte frames) are covered by a length test or by the frame reader's minimum length. Sites outside the domain (indices through struct fields, data-dependent offsets, loops with stride arithmetic) are counted as outside_domain and not claimed. (R5) in the text parser and stream readers an index of the form v-c (c>0) is covered by a test v >= c on its path. (R6) in the text parser every rbuf[e] has e < bufLen and every rbuf[a:b] has b <= bufLen on its path (linear entailment over the symbolic cursor and length; loop-carried locals are outside the domain); (R7) the per-connection reply buffer: every advance of the write index provably fits and the invariant index+64 <= len(buf) is re-established at every exit (inductive, assuming it at entry); (R8) the text protocol's recycled reply object has every argument-dependent field reassigned on every path before hand-over; (R9) constant and constant-bounded loop indexes into fixed-capacity tables (slices only ever made with a constant length) stay below the capacity (field cursors: only where a path fact bounds the cursor, and not in functions whose exploration exceeds the step budget). (R10) every make() whose size derives from an integer decoded from the wire (strconv parse, multi-byte word, a field holding one; parameters not followed) is bounded by the width of the decoded word (<= 32 bits) or by a test on its path - the out-of-range panic of make, not memory exhaustion. (R11) an index into a fixed-capacity table that is decoded from a client's message (protobuf request field, wire command field) is bounded by the width of its type or by a test on its path. (R12) in the value operations every slice of the stored frame whose bound contains a length supplied by the request stays within the frame by the path's comparisons (linear entailment). (R13) the walkers of a value frame (property header, array and key-value elements; accessors in protocol/ and the engine's POP / PUSH loops) read the frame at a loop-carried cursor only under a dominating comparison of the cursor with the frame's length, and slice up to cursor + decoded length only under one that includes the decoded length. (R14) GetValueOffset of the three value-frame types never answers a position beyond the frame. NOT decided: integer overflow, memory exhaustion by large but representable allocations, channel/close misuse, type assertions, deadlock, stack exhaustion."
	r.Assumptions = []string{"Go type checker and go/ssa are correct for /repo", "a handler dispatched through a command registry receives the parsed command with its name at args[0] (len(args) >= 1)", "a panic in any goroutine started for a connection kills the process (no recover in Server.handle: asserted)"}
	c13NoRecover(p, r)
	c13R1(p, r)
	c14R5(p, r, "C13/R2")
	c13R3(p, r)
	c13R4(p, r)
	c13R5(p, r)
	c13R6(p, r)
	c13R7(p, r)
	c13R8(p, r)
	c13R9(p, r)
	c13R10(p, r)
	c13R12(p, r)
	c13R13(p, r)
	c13R14(p, r)
}

// c13NoRecover asserts the premise that makes every panic fatal.
func c13NoRecover(p *core.Prog, r *core.Report) {
	fn := mustFunc(p, r, "server.(*Server).handle")
	if fn == nil {
		return
	}
	has := false
	var scan func(f *ssa.Function)
	scan = func(f *ssa.Function) {
		for _, b := range f.Blocks {
			for _, ins := range b.Instrs {
				if c, ok := ins.(ssa.CallInstruction); ok {
					if bi, ok := c.Common().Value.(*ssa.Builtin); ok && bi.Name() == "recover" {
						has = true
					}
				}
			}
		}
		for _, af := range f.AnonFuncs {
			scan(af)
		}
	}
	scan(fn)
	r.Stats["handle_has_recover"] = map[bool]int{true: 1, false: 0}[has]
	if has {
		r.Notes = append(r.Notes, "Server.handle now recovers from panics: C13's premise (any panic kills the process) no longer holds; findings are connection-level only")
	}
}

// lowerBoundOfLen returns the largest n such that the facts imply len(b) >= n.
func lowerBoundOfLen(f *core.Facts, lenExpr string) int {
	lb := f.LowerBound(lenExpr)
	if lb < 0 {
		return 0
	}
	return int(lb)
}

// indexSite describes b[idx] / b[lo:hi].
type indexSite struct {
	base ssa.Value
	idx  ssa.Value // nil for slices
	lo   ssa.Value
	kind string
}

func indexSiteOf(ins ssa.Instruction) (indexSite, bool) {
	switch t := ins.(type) {
	case *ssa.IndexAddr:
		return indexSite{base: t.X, idx: t.Index, kind: "index"}, true
	case *ssa.Index:
		return indexSite{base: t.X, idx: t.Index, kind: "index"}, true
	case *ssa.Lookup:
		if _, isStr := t.X.Type().Underlying().(*types.Basic); isStr {
			return indexSite{base: t.X, idx: t.Index, kind: "index"}, true
		}
	case *ssa.Slice:
		if t.Low != nil {
			return indexSite{base: t.X, lo: t.Low, kind: "slice"}, true
		}
	}
	return indexSite{}, false
}

// splitIndex renders idx as (variable part, constant part).
func splitIndex(x *core.X, v ssa.Value) (string, int, bool) {
	if c, ok := v.(*ssa.Const); ok {
		return "", int(c.Int64()), true
	}
	if b, ok := v.(*ssa.BinOp); ok && (b.Op == token.ADD || b.Op == token.SUB) {
		if c, ok := b.Y.(*ssa.Const); ok {
			n := int(c.Int64())
			if b.Op == token.SUB {
				n = -n
			}
			vs, vc, ok := splitIndex(x, b.X)
			if ok {
				return vs, vc + n, true
			}
		}
		if c, ok := b.X.(*ssa.Const); ok && b.Op == token.ADD {
			vs, vc, ok := splitIndex(x, b.Y)
			if ok {
				return vs, vc + int(c.Int64()), true
			}
		}
	}
	if cv, ok := v.(*ssa.Convert); ok {
		return splitIndex(x, cv.X)
	}
	return core.Plain(x.Canon(v).S), 0, true
}

// coveredVar: do the facts imply v + c < len(b)?
func coveredVar(f *core.Facts, v string, c int, lenExpr string) (covered bool, related []string) {
	for _, a := range f.All() {
		l, rr := core.Plain(a.L), core.Plain(a.R)
		s := l + " " + a.Op + " " + rr
		if !strings.Contains(s, lenExpr) || !strings.Contains(s, v) {
			continue
		}
		related = append(related, s)
		// forms: (v + k) < len ; v < len (k=0) ; (v + k) <= (len - 1)... with k >= c
		lv, lc, ok := parseAffine(l)
		if ok && lv == v && rr == lenExpr {
			if a.Op == "<" && lc >= c || a.Op == "<=" && lc-1 >= c {
				return true, related
			}
		}
		// v < (len - k)  => v + k < len
		if l == v {
			if rv, rc, ok := parseAffine(rr); ok && rv == lenExpr {
				if a.Op == "<" && -rc >= c || a.Op == "<=" && -rc-1 >= c {
					return true, related
				}
			}
		}
	}
	return false, related
}

// parseAffine parses "x" or "(x + k)" / "(x - k)".
func parseAffine(s string) (string, int, bool) {
	if l, rr, ok := splitTop(s, "+"); ok {
		if k, err := strconv.Atoi(rr); err == nil {
			return l, k, true
		}
		if k, err := strconv.Atoi(l); err == nil {
			return rr, k, true
		}
		return "", 0, false
	}
	if l, rr, ok := splitTop(s, "-"); ok {
		if k, err := strconv.Atoi(rr); err == nil {
			return l, -k, true
		}
		return "", 0, false
	}
	return s, 0, true
}

func c13R1(p *core.Prog, r *core.Report) {
	const rule = "C13/R1"
	r.Rule(rule, "every index / re-slice of a text command's argument list is covered by a length test of that list on its path", 80)
	outside := 0
	// minimum length guaranteed by callers for []string parameters (interprocedural, two rounds)
	minLen := map[*ssa.Parameter]int{}
	type fnArgs struct {
		fn   *ssa.Function
		args *ssa.Parameter
	}
	var targets []fnArgs
	for _, rel := range []string{"protocol", "server"} {
		for _, fn := range p.FuncsIn(rel) {
			if fn.Blocks == nil {
				continue
			}
			for _, prm := range fn.Params {
				if sl, ok := prm.Type().Underlying().(*types.Slice); ok {
					if b, ok := sl.Elem().Underlying().(*types.Basic); ok && b.Kind() == types.String && prm.Name() == "args" {
						targets = append(targets, fnArgs{fn, prm})
					}
				}
			}
		}
	}
	analyse := func(round int) {
		nextMin := map[*ssa.Parameter]int{}
		seenCall := map[*ssa.Parameter]bool{}
		for _, t := range targets {
			fn, args := t.fn, t.args
			lenExpr := "len(" + args.Name() + ")"
			ex := core.NewExplorer(p, core.Hooks{
				Track: func(x *core.X, a core.Atom) bool { return strings.Contains(a.String(), lenExpr) },
				Instr: func(x *core.X) {
					if !x.Top() {
						return
					}
					lb := lowerBoundOfLen(&x.St.Facts, lenExpr)
					if m := minLen[args]; m > lb {
						lb = m
					}
					// calls passing args / args[k:] on: record the callee parameter's guaranteed length
					if c, ok := x.Ins.(ssa.CallInstruction); ok {
						for _, callee := range p.Callees(c) {
							if callee.Blocks == nil {
								continue
							}
							cargs := c.Common().Args
							off := 0
							if c.Common().IsInvoke() {
								off = 1
							}
							for i, a := range cargs {
								k := 0
								v := a
								if sl, ok := a.(*ssa.Slice); ok && sl.X == ssa.Value(args) && sl.Low != nil && sl.High == nil {
									if cc, ok := sl.Low.(*ssa.Const); ok {
										k = int(cc.Int64())
										v = sl.X
									}
								}
								if v != ssa.Value(args) {
									continue
								}
								pi := i + off
								if callee.Signature.Recv() != nil && !c.Common().IsInvoke() {
									pi = i
								}
								if pi < len(callee.Params) {
									cp := callee.Params[pi]
									g := lb - k
									if g < 0 {
										g = 0
									}
									if !seenCall[cp] || g < nextMin[cp] {
										nextMin[cp] = g
									}
									seenCall[cp] = true
								}
							}
						}
					}
					if round == 0 {
						return
					}
					site, ok := indexSiteOf(x.Ins)
					if !ok || site.base != ssa.Value(args) {
						return
					}
					key := siteKey(p, x.Ins)
					iv := site.idx
					if site.kind == "slice" {
						iv = site.lo
					}
					vs, c, _ := splitIndex(x, iv)
					need := c
					if site.kind == "slice" {
						need = c - 1 // args[c:] needs len >= c
					}
					if vs == "" {
						if lb > need {
							r.Hold(rule, key, x.Pos(), fmt.Sprintf("len(%s) >= %d on this path", args.Name(), lb))
						} else {
							r.Violate(rule, key, x.Pos(), fmt.Sprintf("%s of %s at constant %d with only len(%s) >= %d established on this path: a shorter argument list panics the connection goroutine (process exit)", site.kind, args.Name(), c, args.Name(), lb), x.St.Trace)
						}
						return
					}
					cov, related := coveredVar(&x.St.Facts, vs, need, lenExpr)
					switch {
					case cov:
						r.Hold(rule, key, x.Pos(), "covered by a test of "+vs+" against "+lenExpr)
					case len(related) > 0 && need > 0:
						// Only the loop bound (v < len) or a guard on another expression of v
						// relates v to the list length. If the path carries stride/parity
						// evidence (len % k tests) the access may be safe by arithmetic this
						// checker does not do: outside the domain. Otherwise nothing makes
						// v+c valid.
						parity := false
						for _, a := range x.St.Facts.All() {
							if strings.Contains(a.String(), lenExpr) && strings.Contains(a.String(), "%") {
								parity = true
							}
						}
						if parity {
							outside++
						} else {
							r.Violate(rule, key, x.Pos(), fmt.Sprintf("%s[%s+%d] is only guarded by {%s}, which does not imply %s+%d < %s (no parity/stride test of the list length on this path either)", args.Name(), stable(vs), c, stable(strings.Join(related, "; ")), stable(vs), c, lenExpr), x.St.Trace)
						}
					default:
						if need <= 0 && len(related) > 0 {
							r.Hold(rule, key, x.Pos(), "loop index tested against "+lenExpr)
						} else {
							outside++
						}
					}
				},
			})
			ex.NoHist = true
			ex.Run(fn, nil)
			if ex.Imprecise != "" {
				r.Fail("C13/R1 %s: %s", core.FuncName(fn), ex.Imprecise)
			}
		}
		for k, v := range nextMin {
			minLen[k] = v
		}
		// handlers dispatched through the command registries (no static caller
		// passes them a list) receive the parsed command: its name is args[0]
		for _, t := range targets {
			if !seenCall[t.args] {
				minLen[t.args] = 1
			}
		}
	}
	analyse(0)
	analyse(0)
	analyse(0)
	analyse(1)
	r.Stats["R1_outside_domain"] = outside
	r.Stats["R1_arg_list_functions"] = len(targets)
	_ = sort.Strings
}

// optional pointer fields (nil unless a value is attached)
var c13Optional = map[core.FieldKey]bool{
	fk("protocol.LockCommand", "Data"):       true,
	fk("protocol.LockResultCommand", "Data"): true,
	fk("server.LockManager", "currentData"):  true,
	fk("server.Lock", "data"):                true,
}

// c13R3Exempt: dereferences justified by an invariant the checker does not
// prove (function|field -> reason). Could not be made to fail against the
// real code, so it is not a finding; stated here so the claim is not wider
// than the check.
var c13R3Exempt = map[string]string{
	"server.(*LockManager).ProcessRecoverLockData|server.LockManager.currentData": "an undo record (lock.data.currentData != nil, tested on the path) is only written by SaveRecoverData right after ProcessLockData stored a non-nil current value, and the pending hold pins the manager so RemoveLockManager cannot clear it",
}

// optionalLoad: is v a load of one of the optional pointer fields?
func optionalLoad(v ssa.Value) (core.FieldKey, bool) {
	u, ok := v.(*ssa.UnOp)
	if !ok || u.Op != token.MUL {
		return core.FieldKey{}, false
	}
	fa, ok := u.X.(*ssa.FieldAddr)
	if !ok {
		return core.FieldKey{}, false
	}
	k := core.FieldKeyOf(fa.X.Type(), fa.Field)
	return k, c13Optional[k]
}

func c13R3(p *core.Prog, r *core.Report) {
	const rule = "C13/R3"
	r.Rule(rule, "optional pointers (LockCommand.Data, LockResultCommand.Data, LockManager.currentData, Lock.data) are dereferenced only after a non-nil test (or the contains-data flag test tied to Data) on the path", 60)
	for _, rel := range []string{"server", "protocol"} {
		for _, fn := range p.FuncsIn(rel) {
			if fn.Blocks == nil {
				continue
			}
			uses := false
			for _, b := range fn.Blocks {
				for _, ins := range b.Instrs {
					if v, ok := ins.(ssa.Value); ok {
						if _, ok := optionalLoad(v); ok {
							uses = true
						}
					}
				}
			}
			if !uses {
				continue
			}
			ex := core.NewExplorer(p, core.Hooks{
				Track: func(x *core.X, a core.Atom) bool {
					l := core.Plain(a.L)
					return a.R == "nil" && (strings.HasSuffix(l, ".Data") || strings.HasSuffix(l, ".currentData") || strings.HasSuffix(l, ".data") || strings.HasSuffix(l, ".recoverData")) || strings.Contains(l, ".Flag & 32)")
				},
				// a branch on `reg != nil` proves the register non-nil for good
				Branch: func(x *core.X, a core.Atom) {
					iff, ok := x.Ins.(*ssa.If)
					if !ok || a.R != "nil" || a.Op != "!=" || !x.Top() {
						return
					}
					var cond ssa.Value = iff.Cond
					if u, ok := cond.(*ssa.UnOp); ok && u.Op == token.NOT {
						cond = u.X
					}
					if b, ok := cond.(*ssa.BinOp); ok {
						for _, op := range []ssa.Value{b.X, b.Y} {
							if _, ok := optionalLoad(op); ok {
								x.Set("nn:"+op.Name(), "1")
							}
						}
					}
				},
				After: func(x *core.X) {
					if !x.Top() {
						return
					}
					switch t := x.Ins.(type) {
					case *ssa.Store:
						// field := freshly allocated object
						if k, ok := storeKey(t.Addr); ok && c13Optional[k] && (nonNilValue(t.Val, 0) || x.St.Facts.HasPlain(core.Plain(x.Canon(t.Val).S)+" != nil") || x.Get("nn:"+t.Val.Name()) == "1") {
							path := strings.TrimPrefix(x.Canon(t.Addr).S, "&")
							a := core.MkAtom(path, "!=", "nil", nil)
							a.Deps = []core.FieldKey{k}
							x.AddFact(a)
						}
					case *ssa.UnOp:
						// a load while the path fact holds yields a non-nil register
						if _, ok := optionalLoad(t); ok {
							c := core.Plain(x.Canon(t).S)
							if x.St.Facts.HasPlain(c + " != nil") {
								x.Set("nn:"+t.Name(), "1")
							} else if strings.HasSuffix(c, ".Data") && x.St.Facts.HasPlain("("+strings.TrimSuffix(c, ".Data")+".Flag & 32) != 0") {
								x.Set("nn:"+t.Name(), "1")
							}
						}
					}
				},
				Instr: func(x *core.X) {
					if !x.Top() {
						return
					}
					var ptr ssa.Value
					what := ""
					switch t := x.Ins.(type) {
					case *ssa.FieldAddr:
						ptr, what = t.X, "field access"
					case ssa.CallInstruction:
						com := t.Common()
						if c := com.StaticCallee(); c != nil && c.Signature.Recv() != nil && len(com.Args) > 0 {
							if _, isPtr := c.Signature.Recv().Type().(*types.Pointer); isPtr {
								ptr, what = com.Args[0], "method call "+c.Name()
							}
						}
					}
					if ptr == nil {
						return
					}
					// the pointer must be a load of an optional field (possibly via a phi/snapshot)
					k, ok := optionalLoad(ptr)
					if !ok {
						return
					}
					c := core.Plain(x.Canon(ptr).S)
					key := siteKey(p, x.Ins)
					f := &x.St.Facts
					okNil := f.HasPlain(c+" != nil") || x.Get("nn:"+ptr.Name()) == "1"
					if !okNil && k.Field == "Data" {
						base := strings.TrimSuffix(c, ".Data")
						okNil = f.HasPlain("(" + base + ".Flag & 32) != 0")
					}
					if why, ok := c13R3Exempt[core.FuncName(fn)+"|"+k.String()]; ok && !okNil {
						r.Hold(rule, key, x.Pos(), "tabled: "+why)
						return
					}
					if okNil {
						r.Hold(rule, key, x.Pos(), what+" on "+stable(c)+" after a non-nil test")
					} else {
						r.Violate(rule, key, x.Pos(), what+" on optional pointer "+stable(c)+" ("+k.String()+") without a non-nil test on this path: a request without an attached value makes it nil", x.St.Trace)
					}
				},
			})
			ex.NoHist = true
			ex.Run(fn, nil)
			if ex.Imprecise != "" {
				r.Fail("C13/R3 %s: %s", core.FuncName(fn), ex.Imprecise)
			}
		}
	}
}

// frameOrigin classifies where a value frame handed to a constructor comes from.
func frameOrigin(v ssa.Value, depth int) string {
	if depth > 6 {
		return "unknown"
	}
	switch x := v.(type) {
	case *ssa.Extract:
		return frameOrigin(x.Tuple, depth+1)
	case *ssa.Call:
		if c := x.Common().StaticCallee(); c != nil {
			switch c.Name() {
			case "ReadBytesFrame", "ReadBytesSize", "ReadBytes":
				return "connection read (" + c.Name() + ")"
			}
			return "call " + c.Name()
		}
		return "call"
	case *ssa.Slice:
		o := frameOrigin(x.X, depth+1)
		if strings.HasPrefix(o, "connection") || strings.HasPrefix(o, "client") {
			return "client sub-frame"
		}
		return o
	case *ssa.UnOp:
		if fa, ok := x.X.(*ssa.FieldAddr); ok {
			k := core.FieldKeyOf(fa.X.Type(), fa.Field)
			if k.Type == "protocol.LockCommandData" && k.Field == "Data" {
				return "client value frame (LockCommandData.Data)"
			}
			return "field " + k.String()
		}
	case *ssa.Parameter:
		return "parameter " + x.Name()
	case *ssa.Phi:
		for _, e := range x.Edges {
			if o := frameOrigin(e, depth+1); strings.HasPrefix(o, "connection") || strings.HasPrefix(o, "client") {
				return o
			}
		}
	}
	return "unknown"
}

func c13R4(p *core.Prog, r *core.Report) {
	const rule = "C13/R4"
	r.Rule(rule, "value frames taken from a connection (or cut out of client bytes) are tested for their 6-byte header before the frame constructors index it; constant indexes >= 6 into a client value frame are covered by a length test", 4)
	ctor := map[*ssa.Function]bool{}
	for _, n := range []string{"protocol.NewLockCommandDataFromOriginBytes", "protocol.NewLockResultCommandDataFromOriginBytes"} {
		if f := mustFunc(p, r, n); f != nil {
			ctor[f] = true
		}
	}
	r4Wire, _ := c13WireInts(p)
	// (a) constructor call sites
	for _, rel := range []string{"server", "protocol"} {
		for _, fn := range p.FuncsIn(rel) {
			if fn.Blocks == nil {
				continue
			}
			has := false
			for _, b := range fn.Blocks {
				for _, ins := range b.Instrs {
					if c := core.StaticCallee(ins); c != nil && ctor[c] {
						has = true
					}
				}
			}
			if !has {
				continue
			}
			ex := core.NewExplorer(p, core.Hooks{
				Track: func(x *core.X, a core.Atom) bool {
					return strings.Contains(a.String(), "len(") || strings.Contains(a.String(), "uint32(")
				},
				Instr: func(x *core.X) {
					c := core.StaticCallee(x.Ins)
					if c == nil || !ctor[c] || !x.Top() {
						return
					}
					arg := core.CallArgs(x.Ins)[0]
					org := frameOrigin(arg, 0)
					key := siteKey(p, x.Ins)
					// a frame assembled in a buffer made with (n + 4) bytes, n decoded from client bytes
					if mk, ok := arg.(*ssa.MakeSlice); ok && r4Wire(mk.Len) {
						lenC := core.Plain(x.Canon(mk.Len).S)
						if l, four, ok := splitTop(lenC, "+"); ok && strings.TrimSpace(four) == "4" {
							if x.St.Facts.LowerBound(strings.TrimSpace(l)) >= 2 {
								r.Hold(rule, key, x.Pos(), "embedded frame length tested >= 2 (type and flag bytes present)")
							} else {
								r.Violate(rule, key, x.Pos(), "a value frame is assembled in a buffer of "+lenC+" bytes, where the length is decoded from the client's bytes and only tested positive: with length 1 the constructor reads the flag byte at index 5 of a 5-byte buffer (index out of range in the connection goroutine)", x.St.Trace)
							}
							return
						}
					}
					if !strings.HasPrefix(org, "connection") && !strings.HasPrefix(org, "client") {
						return // server-produced frame (own log / stored value): outside the domain
					}
					lenExpr := "len(" + core.Plain(x.Canon(arg).S) + ")"
					lb := lowerBoundOfLen(&x.St.Facts, lenExpr)
					// a sub-frame buf[a : a+4+n] has length 4+n: accept a test n >= 2
					if sl, ok := arg.(*ssa.Slice); ok && lb < 6 && sl.High != nil && sl.Low != nil {
						hi, lo := core.Plain(x.Canon(sl.High).S), core.Plain(x.Canon(sl.Low).S)
						// hi = ((lo + 4) + n)
						if l, n, ok := splitTop(hi, "+"); ok && (l == "("+lo+" + 4)") {
							if x.St.Facts.LowerBound(n) >= 2 {
								lb = 6
							}
						}
					}
					if lb >= 6 {
						r.Hold(rule, key, x.Pos(), fmt.Sprintf("frame from %s has len >= %d here", org, lb))
					} else {
						r.Violate(rule, key, x.Pos(), fmt.Sprintf("frame from %s reaches %s with only len >= %d established: the constructor reads header bytes 4 and 5 (a data frame shorter than 2 bytes crashes the server)", org, c.Name(), lb), x.St.Trace)
					}
				},
			})
			ex.NoHist = true
			ex.Run(fn, nil)
		}
	}
	// (b) constant indexes >= 6 into client value frames inside the frame types' methods
	for _, fn := range p.FuncsIn("protocol") {
		if fn.Blocks == nil || (recvName(fn) != "LockCommandData" && recvName(fn) != "LockResultCommandData") {
			continue
		}
		self := fn.Params[0].Name()
		ex := core.NewExplorer(p, core.Hooks{
			Track: func(x *core.X, a core.Atom) bool { return strings.Contains(a.String(), "len("+self+".Data)") },
			Instr: func(x *core.X) {
				if !x.Top() {
					return
				}
				site, ok := indexSiteOf(x.Ins)
				if !ok || site.kind != "index" {
					return
				}
				if core.Plain(x.Canon(site.base).S) != self+".Data" {
					return
				}
				cst, ok := site.idx.(*ssa.Const)
				if !ok || cst.Int64() < 6 {
					return
				}
				key := siteKey(p, x.Ins)
				lb := lowerBoundOfLen(&x.St.Facts, "len("+self+".Data)")
				if int64(lb) > cst.Int64() {
					r.Hold(rule, key, x.Pos(), fmt.Sprintf("len >= %d", lb))
				} else {
					r.Violate(rule, key, x.Pos(), fmt.Sprintf("index %d into the client's value frame with only len >= %d established (the 6-byte header is all a frame is guaranteed to have)", cst.Int64(), lb), x.St.Trace)
				}
			},
		})
		ex.NoHist = true
		ex.Run(fn, nil)
	}
}

// nonNilValue: v is certainly a non-nil pointer (address of a fresh object, or
// the result of a function all of whose returns are such).
func nonNilValue(v ssa.Value, depth int) bool {
	if depth > 3 {
		return false
	}
	switch x := v.(type) {
	case *ssa.Alloc:
		return true
	case *ssa.Call:
		c := x.Common().StaticCallee()
		if c == nil || c.Blocks == nil {
			return false
		}
		any := false
		for _, b := range c.Blocks {
			for _, ins := range b.Instrs {
				if ret, ok := ins.(*ssa.Return); ok {
					if len(ret.Results) != 1 || !nonNilValue(ret.Results[0], depth+1) {
						return false
					}
					any = true
				}
			}
		}
		return any
	}
	return false
}

// R5: indexes of the form v - c in the byte-level parsers need v >= c.
func c13R5(p *core.Prog, r *core.Report) {
	const rule = "C13/R5"
	r.Rule(rule, "in the text parser / stream readers every index v-c (c>0, v a cursor, not a length) is covered by a test establishing v >= c on the path", 2)
	for _, fn := range append(p.FuncsIn("protocol"), p.FuncsIn("server")...) {
		if fn.Blocks == nil {
			continue
		}
		rn := recvName(fn)
		if rn != "TextParser" && rn != "Stream" && rn != "StreamReaderBuffer" && rn != "MemBytesArrayStream" {
			continue
		}
		ex := core.NewExplorer(p, core.Hooks{
			Track: func(x *core.X, a core.Atom) bool { return isConstText(a.L) || isConstText(a.R) },
			Instr: func(x *core.X) {
				if !x.Top() {
					return
				}
				site, ok := indexSiteOf(x.Ins)
				if !ok || site.kind != "index" {
					return
				}
				b, ok := site.idx.(*ssa.BinOp)
				if !ok || b.Op != token.SUB {
					return
				}
				c, ok := b.Y.(*ssa.Const)
				if !ok || c.Int64() <= 0 {
					return
				}
				v := core.Plain(x.Canon(b.X).S)
				if strings.HasPrefix(v, "len(") {
					return // last-element access: rests on a state-machine invariant, outside the domain
				}
				key := siteKey(p, x.Ins)
				if x.St.Facts.LowerBound(v) >= c.Int64() {
					r.Hold(rule, key, x.Pos(), fmt.Sprintf("%s >= %d tested", stable(v), c.Int64()))
				} else {
					r.Violate(rule, key, x.Pos(), fmt.Sprintf("index %s-%d without a test that %s >= %d on this path: a read boundary that leaves it at 0 indexes at -1 and crashes the server", stable(v), c.Int64(), stable(v), c.Int64()), x.St.Trace)
				}
			},
		})
		ex.NoHist = true
		ex.Run(fn, nil)
		if ex.Imprecise != "" {
			r.Fail("C13/R5 %s: %s", core.FuncName(fn), ex.Imprecise)
		}
	}
}

func isConstText(s string) bool {
	_, err := strconv.Atoi(s)
	return err == nil
}

// c13R6: upper bounds in the text parser. The parser walks its read buffer
// with the cursor bufIndex up to bufLen (the number of bytes the last read
// delivered; bufLen <= len(rbuf) is the contract of BufferUpdate /
// CopyToReadBuf). Every element access rbuf[e] needs e <= bufLen-1 and every
// re-slice rbuf[a:b] needs b <= bufLen on its path, proved from the path's
// comparisons by linear combination (cursor and length are both symbolic, so
// interval facts against constants do not suffice). A look-ahead such as
// rbuf[bufIndex+1] behind the test bufIndex+1 <= bufLen reads one past the
// data - past the buffer when a read filled it completely.
func c13R6(p *core.Prog, r *core.Report) {
	const rule = "C13/R6"
	r.Rule(rule, "text parser: every rbuf[e] has e < bufLen and every rbuf[a:b] has b <= bufLen on its path (linear entailment from the path's comparisons)", 10)
	for _, fn := range p.FuncsIn("protocol") {
		if fn.Blocks == nil || recvName(fn) != "TextParser" || (fn.Name() != "ParseRequest" && fn.Name() != "ParseResponse") {
			continue
		}
		name := core.FuncName(fn)
		self := fn.Params[0].Name()
		bufLen := core.LinTerm(self + ".bufLen")
		isRbuf := func(x *core.X, v ssa.Value) bool { return core.Plain(x.Canon(v).S) == self+".rbuf" }
		facts := func(x *core.X) []core.Lin {
			var fs []core.Lin
			for _, a := range x.St.Facts.All() {
				if strings.Contains(a.L, core.SnapMark) || strings.Contains(a.R, core.SnapMark) {
					continue
				}
				fs = append(fs, core.AtomLin(a)...)
			}
			return fs
		}
		ord := map[string]int{}
		ex := core.NewExplorer(p, core.Hooks{
			Track: func(x *core.X, a core.Atom) bool {
				s := a.String()
				return strings.Contains(s, ".bufIndex") || strings.Contains(s, ".bufLen")
			},
			Instr: func(x *core.X) {
				if !x.Top() {
					return
				}
				var idx ssa.Value
				kind := ""
				switch t := x.Ins.(type) {
				case *ssa.IndexAddr:
					if isRbuf(x, t.X) {
						idx, kind = t.Index, "index"
					}
				case *ssa.Slice:
					if isRbuf(x, t.X) && t.High != nil {
						idx, kind = t.High, "slice"
					}
				}
				if kind == "" {
					return
				}
				e := x.Canon(idx).S
				if strings.Contains(e, core.SnapMark) || strings.Contains(e, "phi") {
					// register snapshots and loop-carried locals are outside the decided
					// domain (the rule decides expressions over the cursor fields)
					r.Stats["R6_outside_domain"]++
					return
				}
				pos := x.Pos()
				if _, ok := ord[pos+kind+e]; !ok {
					ord[pos+kind+e] = len(ord) + 1
				}
				key := fmt.Sprintf("%s: rbuf %s %s", name, kind, stable(e))
				target := bufLen.Sub(core.ParseLin(e))
				if kind == "index" {
					target = target.Add(core.LinConst(-1))
				}
				if core.LinEntails(facts(x), target) {
					r.Hold(rule, key, pos, "within the delivered bytes")
				} else {
					what := "rbuf[" + stable(e) + "]"
					if kind == "slice" {
						what = "rbuf[:" + stable(e) + "]"
					}
					r.Violate(rule, key, pos, what+" is not shown to stay within bufLen on this path: when a read fills the buffer completely the access runs past it (index out of range in the connection goroutine), otherwise it reads bytes of an earlier read", x.St.Trace)
				}
			},
		})
		ex.NoHist = true
		ex.Run(fn, nil)
		if ex.Imprecise != "" {
			r.Fail("C13/R6 %s: %s", name, ex.Imprecise)
		}
	}
}

// c13R7: headroom of the per-connection reply buffer. Replies of pipelined
// requests are appended to StreamWriterBuffer.buf at .index and flushed later
// by WriteToConn, which slices buf[:index]: an index beyond len(buf) panics in
// the connection goroutine (copy() itself truncates silently). The appender
// keeps the invariant index+64 <= len(buf) between calls (it flushes when the
// next header would not fit). Inductive check over the functions that advance
// the index: assuming the invariant at entry, every advance index += n is
// preceded on its path by comparisons from which index+n <= len(buf) follows
// (linear combination; a successful WriteToConn resets the index to 0), and
// the invariant holds again at every exit that advanced the index.
func c13R7(p *core.Prog, r *core.Report) {
	const rule = "C13/R7"
	r.Rule(rule, "reply write buffer: every advance of StreamWriterBuffer.index fits (index+n <= len(buf) follows from the path's comparisons and the entry invariant index+64 <= len(buf)), and the invariant is re-established before returning", 2)
	idxKey := fk("server.StreamWriterBuffer", "index")
	const I0, L = "index@entry", "len(buf)"
	for _, fn := range p.FuncsIn("server") {
		if fn.Blocks == nil || recvName(fn) == "StreamWriterBuffer" {
			continue
		}
		adv := false
		for _, b := range fn.Blocks {
			for _, ins := range b.Instrs {
				if st, ok := ins.(*ssa.Store); ok {
					if k, ok := storeKey(st.Addr); ok && k == idxKey {
						if _, isC := st.Val.(*ssa.Const); !isC {
							adv = true
						}
					}
				}
			}
		}
		if !adv {
			continue
		}
		name := core.FuncName(fn)
		// the current index as a linear form over I0 and other terms, and the
		// path facts as linear forms >= 0, are kept in the rule state
		enc := func(l core.Lin) string {
			var parts []string
			parts = append(parts, strconv.FormatInt(l.C, 10))
			var ks []string
			for k := range l.T {
				ks = append(ks, k)
			}
			sort.Strings(ks)
			for _, k := range ks {
				parts = append(parts, strconv.FormatInt(l.T[k], 10)+"\x00"+k)
			}
			return strings.Join(parts, "\x01")
		}
		dec := func(s string) core.Lin {
			l := core.LinConst(0)
			for i, part := range strings.Split(s, "\x01") {
				if i == 0 {
					l.C, _ = strconv.ParseInt(part, 10, 64)
					continue
				}
				kv := strings.SplitN(part, "\x00", 2)
				if len(kv) == 2 {
					c, _ := strconv.ParseInt(kv[0], 10, 64)
					l.T[kv[1]] = c
				}
			}
			return l
		}
		cur := func(x *core.X) core.Lin {
			if s := x.Get("cur"); s != "" {
				return dec(s)
			}
			return core.LinTerm(I0)
		}
		// rewrite a canonical expression into a linear form over I0 / L / other terms
		norm := func(x *core.X, e string) (core.Lin, bool) {
			if strings.Contains(e, core.SnapMark) {
				e = core.Plain(e)
			}
			l := core.ParseLin(e)
			out := core.LinConst(l.C)
			for t, c := range l.T {
				switch {
				case strings.HasSuffix(t, "riterBuffer.index") || strings.HasSuffix(t, ".index") && strings.Contains(t, "riterBuffer"):
					out = out.Add(cur(x).Scale(c))
				case strings.HasPrefix(t, "len(") && strings.HasSuffix(t, "riterBuffer.buf)"):
					out = out.Add(core.LinTerm(L).Scale(c))
				default:
					out = out.Add(core.LinTerm(t).Scale(c))
				}
			}
			return out, true
		}
		base := func(x *core.X) []core.Lin {
			fs := []core.Lin{
				core.LinTerm(I0), // index >= 0
				core.LinTerm(L).Sub(core.LinTerm(I0)).Add(core.LinConst(-64)), // entry invariant
			}
			for k, v := range x.St.RS {
				if strings.HasPrefix(k, "f:") && v != "" {
					fs = append(fs, dec(v))
				}
			}
			// lengths are non-negative
			seen := map[string]bool{}
			for _, f := range fs {
				for t := range f.T {
					if strings.HasPrefix(t, "len(") && !seen[t] {
						seen[t] = true
						fs = append(fs, core.LinTerm(t))
					}
				}
			}
			return fs
		}
		nfact := 0
		advanced := 0
		ex := core.NewExplorer(p, core.Hooks{
			Track: func(x *core.X, a core.Atom) bool {
				s := a.String()
				return strings.Contains(s, "riterBuffer.index") || strings.Contains(s, "riterBuffer.buf)") || strings.HasSuffix(core.Plain(a.L), "data") && a.R == "nil"
			},
			Branch: func(x *core.X, a core.Atom) {
				if !x.Top() {
					return
				}
				s := a.String()
				if strings.Contains(s, "riterBuffer.index") || strings.Contains(s, "riterBuffer.buf)") {
					for _, side := range []string{a.L, a.R} {
						_ = side
					}
					l, ok1 := norm(x, a.L)
					rr, ok2 := norm(x, a.R)
					if !ok1 || !ok2 {
						return
					}
					var forms []core.Lin
					switch a.Op {
					case "<":
						forms = []core.Lin{rr.Sub(l).Add(core.LinConst(-1))}
					case "<=":
						forms = []core.Lin{rr.Sub(l)}
					case "==":
						forms = []core.Lin{rr.Sub(l), l.Sub(rr)}
					}
					for _, f := range forms {
						nfact++
						x.Set(fmt.Sprintf("f:%d", nfact), enc(f))
					}
				}
				// data == nil: len(data) == 0
				if a.R == "nil" && a.Op == "==" && !strings.Contains(a.L, "(") {
					nfact++
					x.Set(fmt.Sprintf("f:%d", nfact), enc(core.LinTerm("len("+core.Plain(a.L)+")").Scale(-1)))
				}
			},
			Instr: func(x *core.X) {
				if !x.Top() {
					return
				}
				if c := core.StaticCallee(x.Ins); c != nil && recvName(c) == "StreamWriterBuffer" && c.Name() == "WriteToConn" {
					// the function returns on error; on success the buffer is empty
					x.Set("cur", enc(core.LinConst(0)))
					return
				}
				st, ok := x.Ins.(*ssa.Store)
				if !ok {
					return
				}
				k, ok := storeKey(st.Addr)
				if !ok || k != idxKey {
					return
				}
				v := x.Canon(st.Val).S
				if n, err := strconv.ParseInt(v, 10, 64); err == nil {
					x.Set("cur", enc(core.LinConst(n)))
					return
				}
				nv, _ := norm(x, v)
				advanced++
				x.Set("adv", "1")
				key := name + ": advance by " + stable(core.Plain(core.ParseLin(v).Sub(core.ParseLin(strings.TrimPrefix(core.Plain(x.Canon(st.Addr).S), "&"))).String()))
				target := core.LinTerm(L).Sub(nv)
				if core.LinEntails(base(x), target) {
					r.Hold(rule, key, x.Pos(), "fits: index after the advance <= len(buf)")
				} else {
					r.Violate(rule, key, x.Pos(), "the write index is advanced to "+nv.String()+" without the path establishing that this stays within len(buf): copy() truncates silently, the index runs past the buffer and the next flush slices buf[:index] out of range (connection goroutine panics, process dies)", x.St.Trace)
				}
				x.Set("cur", enc(nv))
			},
			Exit: func(x *core.X, rets []core.Expr) {
				if x.Get("adv") != "1" {
					return
				}
				if len(rets) == 1 && rets[0].S != "nil" {
					return // error return: the connection is torn down
				}
				key := name + ": invariant at exit"
				target := core.LinTerm(L).Sub(cur(x)).Add(core.LinConst(-64))
				if core.LinEntails(base(x), target) {
					r.Hold(rule, key, x.Pos(), "index+64 <= len(buf) re-established")
				} else {
					r.Violate(rule, key, x.Pos(), "returns with the write index at "+cur(x).String()+" without room for the next 64-byte header having been checked: the next reply is appended without a fit test", x.St.Trace)
				}
			},
		})
		ex.Run(fn, nil)
		if ex.Imprecise != "" {
			r.Fail("C13/R7 %s: %s", name, ex.Imprecise)
		}
		if advanced == 0 {
			r.Fail("C13/R7 %s: no advance of the write index explored", name)
		}
	}
}

// c13R8: the text protocol keeps one LockResultCommand per connection and
// reuses it for the next reply. Everything a reply says that can differ from
// the previous reply has to be written again before the object is handed to
// the reader: the fields the constructor NewLockResultCommand derives from its
// arguments. A field left from the previous reply is not just wrong data: a
// stale CONTAINS_DATA flag with Data reset to nil makes the reply writer
// dereference nil and the connection goroutine panic.
func c13R8(p *core.Prog, r *core.Report) {
	const rule = "C13/R8"
	r.Rule(rule, "the recycled text reply object has every argument-dependent field reassigned (not from its own old value) on every path before it is handed to the reader", 1)
	fn := mustFunc(p, r, "server.(*TextServerProtocol).ProcessLockResultCommand")
	ctor := mustFunc(p, r, "protocol.NewLockResultCommand")
	if fn == nil || ctor == nil {
		return
	}
	// fields the constructor fills from its arguments
	required := map[string]bool{}
	for _, b := range ctor.Blocks {
		for _, ins := range b.Instrs {
			st, ok := ins.(*ssa.Store)
			if !ok {
				continue
			}
			fa, ok := st.Addr.(*ssa.FieldAddr)
			if !ok {
				continue
			}
			k := core.FieldKeyOf(fa.X.Type(), fa.Field)
			if k.Type != "protocol.LockResultCommand" && k.Type != "protocol.ResultCommand" {
				continue
			}
			if _, isConst := st.Val.(*ssa.Const); isConst {
				continue
			}
			if u, ok := st.Val.(*ssa.UnOp); ok {
				if _, isGlobal := u.X.(*ssa.Global); isGlobal {
					continue
				}
			}
			if k.Field == "ResultCommand" {
				continue
			}
			required[k.Field] = true
		}
	}
	// the embedded ResultCommand literal is built separately: its argument-dependent fields
	for _, f := range []string{"CommandType", "RequestId", "Result"} {
		required[f] = true
	}
	delete(required, "Magic")
	delete(required, "Version")
	if len(required) < 8 {
		r.Fail("C13/R8: constructor fields not recognised (%d)", len(required))
		return
	}
	self := fn.Params[0].Name()
	obj := self + ".freeCommandResult"
	n := 0
	ex := core.NewExplorer(p, core.Hooks{
		Instr: func(x *core.X) {
			if !x.Top() {
				return
			}
			switch t := x.Ins.(type) {
			case *ssa.Store:
				fa, ok := t.Addr.(*ssa.FieldAddr)
				if !ok {
					return
				}
				k := core.FieldKeyOf(fa.X.Type(), fa.Field)
				if k.Type != "protocol.LockResultCommand" && k.Type != "protocol.ResultCommand" {
					return
				}
				base := core.Plain(x.Canon(fa.X).S)
				if !strings.HasPrefix(base, obj) && !strings.HasPrefix(strings.TrimPrefix(base, "&"), obj) {
					return
				}
				v := core.Plain(x.Canon(t.Val).S)
				if strings.Contains(v, obj+"."+k.Field) || strings.Contains(v, obj+".ResultCommand."+k.Field) {
					x.Set("as:"+k.Field, "") // read-modify-write of the stale value
					return
				}
				x.Set("as:"+k.Field, "1")
			case *ssa.Send:
				if !strings.HasPrefix(core.Plain(x.Canon(t.X).S), obj) {
					return
				}
				n++
				var missing []string
				for f := range required {
					if x.Get("as:"+f) != "1" {
						missing = append(missing, f)
					}
				}
				sort.Strings(missing)
				key := "server.(*TextServerProtocol).ProcessLockResultCommand: recycled reply"
				if len(missing) == 0 {
					r.Hold(rule, key, x.Pos(), "all argument-dependent fields reassigned")
				} else {
					r.Violate(rule, key, x.Pos(), "the recycled reply object is handed to the reader with "+strings.Join(missing, ", ")+" left from the previous reply on this path (e.g. a stale CONTAINS_DATA flag with Data reset to nil makes the reply writer dereference nil: the connection goroutine panics)", x.St.Trace)
				}
			}
		},
	})
	ex.NoHist = true
	ex.Run(fn, nil)
	if ex.Imprecise != "" {
		r.Fail("C13/R8: %s", ex.Imprecise)
	}
	if n == 0 {
		r.Fail("C13/R8: no hand-over of the recycled reply found")
	}
}

// c13R9: fixed-capacity tables. Several per-connection caches are slices that
// are only ever created as make([]T, K) with a constant K (the free-command
// caches, the wheel slot arrays). A loop with constant bounds that indexes
// such a table, or a constant index, must stay below K - the classic
// "i <= SIZE" walks one past the table and panics in the connection goroutine.
func c13R9(p *core.Prog, r *core.Report) {
	const rule = "C13/R9"
	r.Rule(rule, "indexes into slices that are only ever made with a constant length stay below that length: constant indexes, constant-bounded loop indexes, and field cursors whose path bounds them", 4)
	type info struct {
		k     int64
		mixed bool
	}
	fixed := map[core.FieldKey]*info{}
	note := func(k core.FieldKey, n int64, ok bool) {
		in := fixed[k]
		if in == nil {
			in = &info{k: -1}
			fixed[k] = in
		}
		if !ok {
			in.mixed = true
			return
		}
		if in.k >= 0 && in.k != n {
			in.mixed = true
		}
		in.k = n
	}
	for _, pkg := range []string{"server", "client"} {
		for _, fn := range p.FuncsIn(pkg) {
			for _, b := range fn.Blocks {
				for _, ins := range b.Instrs {
					st, ok := ins.(*ssa.Store)
					if !ok {
						continue
					}
					fa, ok := st.Addr.(*ssa.FieldAddr)
					if !ok {
						continue
					}
					if _, isSlice := st.Val.Type().Underlying().(*types.Slice); !isSlice {
						continue
					}
					k := core.FieldKeyOf(fa.X.Type(), fa.Field)
					switch v := st.Val.(type) {
					case *ssa.MakeSlice:
						if c, ok := v.Len.(*ssa.Const); ok && c.Value != nil {
							note(k, c.Int64(), true)
						} else {
							note(k, 0, false)
						}
					case *ssa.Slice:
						al, ok := v.X.(*ssa.Alloc)
						if ok && v.Low == nil {
							if pt, ok := al.Type().Underlying().(*types.Pointer); ok {
								if at, ok := pt.Elem().Underlying().(*types.Array); ok {
									if v.High == nil {
										note(k, at.Len(), true)
										continue
									}
									if c, ok := v.High.(*ssa.Const); ok && c.Value != nil {
										note(k, c.Int64(), true)
										continue
									}
								}
							}
						}
						note(k, 0, false)
					case *ssa.Const:
						// nil: releasing the table
					default:
						note(k, 0, false)
					}
				}
			}
		}
	}
	pathIdx := map[*ssa.Function]bool{}
	isWire, _ := c13WireInts(p)
	r.Rule("C13/R11", "an index into a fixed-capacity table that is decoded from a client's message (a field of a protobuf request, a wire integer) is bounded by the width of its type or by a test on its path", 20)
	defer func() {
		// cursors: a path fact that bounds the cursor must bound it below the capacity
		var fns []*ssa.Function
		for fn := range pathIdx {
			fns = append(fns, fn)
		}
		sort.Slice(fns, func(i, j int) bool { return core.FuncName(fns[i]) < core.FuncName(fns[j]) })
		for _, fn := range fns {
			name := core.FuncName(fn)
			ex := core.NewExplorer(p, core.Hooks{
				Track: func(x *core.X, a core.Atom) bool { return true },
				Instr: func(x *core.X) {
					if !x.Top() {
						return
					}
					ia, ok := x.Ins.(*ssa.IndexAddr)
					if !ok {
						return
					}
					ld, ok := ia.X.(*ssa.UnOp)
					if !ok {
						return
					}
					fa, ok := ld.X.(*ssa.FieldAddr)
					if !ok {
						return
					}
					k := core.FieldKeyOf(fa.X.Type(), fa.Field)
					in := fixed[k]
					if in == nil || in.mixed || in.k < 0 {
						return
					}
					if _, isC := ia.Index.(*ssa.Const); isC {
						return
					}
					e := core.Plain(x.Canon(ia.Index).S)
					ub := x.St.Facts.UpperBound(e)
					if wired, _ := c13WireIndex(ia.Index, isWire); wired && ub > 1<<40 {
						// tested against the table's own length
						table := "len(" + core.Plain(x.Canon(ld).S) + ")"
						strip := func(t string) string {
							for _, c := range []string{"int(", "uint32(", "uint(", "int64(", "uint64("} {
								if strings.HasPrefix(t, c) && strings.HasSuffix(t, ")") {
									return t[len(c) : len(t)-1]
								}
							}
							return t
						}
						for _, a := range x.St.Facts.All() {
							l, rr := strip(core.Plain(a.L)), strip(core.Plain(a.R))
							if a.Op == "<" && l == strip(e) && rr == table {
								r.Hold("C13/R11", name+": "+k.Field+"["+stable(e)+"] from the wire", x.Pos(), "tested below the table's length")
								return
							}
						}
					}
					if ub > 1<<40 {
						// R11: an index that comes from the wire needs a bound: its type's, or a test
						if wired, width := c13WireIndex(ia.Index, isWire); wired {
							key := name + ": " + k.Field + "[" + stable(e) + "] from the wire"
							if width < in.k {
								r.Hold("C13/R11", key, x.Pos(), fmt.Sprintf("bounded by its type (at most %d), table has %d entries", width, in.k))
							} else {
								r.Violate("C13/R11", key, x.Pos(), fmt.Sprintf("%s is always made with %d entries and is indexed by %s, an integer decoded from a client's message, without a bound on this path: a larger value panics (index out of range) in the connection's goroutine, which has no recover() - the process ends", k.String(), in.k, e), x.St.Trace)
							}
							return
						}
						r.Stats["R9_unbounded_cursors"]++
						return
					}
					key := name + ": " + k.Field + "[" + stable(e) + "]"
					if ub < in.k {
						r.Hold(rule, key, x.Pos(), fmt.Sprintf("cursor bounded by %d on this path, table has %d entries", ub, in.k))
					} else {
						r.Violate(rule, key, x.Pos(), fmt.Sprintf("the path bounds the cursor only by %d, but %s is always made with %d entries: the guard admits an index one past the table (index out of range)", ub, k.String(), in.k), x.St.Trace)
					}
				},
			})
			ex.NoHist = true
			ex.MaxSteps = 150000
			ex.Run(fn, nil)
			if ex.Imprecise != "" {
				// cursor bounds in very large functions are outside the decided domain
				// (constant and loop indexes of the same function are still decided above)
				r.Stats["R9_functions_outside_domain"]++
			}
		}
	}()
	for _, pkg := range []string{"server", "client"} {
		for _, fn := range p.FuncsIn(pkg) {
			if fn.Blocks == nil {
				continue
			}
			n := 0
			for _, b := range fn.Blocks {
				for _, ins := range b.Instrs {
					ia, ok := ins.(*ssa.IndexAddr)
					if !ok {
						continue
					}
					ld, ok := ia.X.(*ssa.UnOp)
					if !ok {
						continue
					}
					fa, ok := ld.X.(*ssa.FieldAddr)
					if !ok {
						continue
					}
					k := core.FieldKeyOf(fa.X.Type(), fa.Field)
					in := fixed[k]
					if in == nil || in.mixed || in.k < 0 {
						continue
					}
					hi := int64(-1)
					what := ""
					switch t := ia.Index.(type) {
					case *ssa.Const:
						if t.Value != nil {
							hi = t.Int64() + 1
							what = fmt.Sprintf("constant index %d", t.Int64())
						}
					case *ssa.Phi:
						if rg, ok := inductionRange(t); ok {
							hi = int64(rg.hi)
							what = fmt.Sprintf("loop index in [%d,%d)", rg.lo, rg.hi)
						}
					}
					if hi < 0 {
						pathIdx[fn] = true
						continue
					}
					n++
					key := fmt.Sprintf("%s: %s index#%d", core.FuncName(fn), k.Field, n)
					if hi <= in.k {
						r.Hold(rule, key, p.InstrPos(ins), fmt.Sprintf("%s within the table's %d entries", what, in.k))
					} else {
						r.Violate(rule, key, p.InstrPos(ins), fmt.Sprintf("%s reaches past %s, which is always made with %d entries: index out of range in the connection's goroutine", what, k.String(), in.k), nil)
					}
				}
			}
		}
	}
}

// ---------------------------------------------------------------------------
// R10: allocations sized by an integer decoded from the wire. make() panics
// ("len/cap out of range") for sizes beyond the address space and a connection
// goroutine has no recover(), so such a size needs an upper bound on its path.
//
// Wire integers (found in the code, not listed): the result of a strconv
// integer parse, a word assembled from two or more bytes of a byte slice with
// shifts, and a load of a struct field that some function of the module stores
// such a value into. Function parameters are not followed (stated limit).

func c13WireInts(p *core.Prog) (isWire func(v ssa.Value) bool, fields map[core.FieldKey]bool) {
	fields = map[core.FieldKey]bool{}
	var wire func(v ssa.Value, depth int, seen map[ssa.Value]bool) bool
	byteLoads := func(v ssa.Value) int {
		// number of distinct byte loads from a slice/array under an OR/ADD/SHL tree
		n := 0
		var walk func(v ssa.Value, d int)
		walk = func(v ssa.Value, d int) {
			if d > 12 {
				return
			}
			switch t := v.(type) {
			case *ssa.BinOp:
				if t.Op == token.OR || t.Op == token.ADD || t.Op == token.SHL {
					walk(t.X, d+1)
					if t.Op != token.SHL {
						walk(t.Y, d+1)
					}
				}
			case *ssa.Convert:
				walk(t.X, d+1)
			case *ssa.UnOp:
				if ia, ok := t.X.(*ssa.IndexAddr); ok {
					if b, ok := t.Type().Underlying().(*types.Basic); ok && (b.Kind() == types.Uint8 || b.Kind() == types.Byte) {
						_ = ia
						n++
					}
				}
			}
		}
		walk(v, 0)
		return n
	}
	wire = func(v ssa.Value, depth int, seen map[ssa.Value]bool) bool {
		if depth > 10 || seen[v] {
			return false
		}
		seen[v] = true
		switch t := v.(type) {
		case *ssa.Extract:
			if c, ok := t.Tuple.(*ssa.Call); ok && t.Index == 0 {
				if callee := c.Common().StaticCallee(); callee != nil && callee.Pkg != nil && callee.Pkg.Pkg.Path() == "strconv" {
					switch callee.Name() {
					case "Atoi", "ParseInt", "ParseUint":
						return true
					}
				}
			}
		case *ssa.Convert:
			return wire(t.X, depth+1, seen)
		case *ssa.ChangeType:
			return wire(t.X, depth+1, seen)
		case *ssa.Phi:
			for _, e := range t.Edges {
				if wire(e, depth+1, seen) {
					return true
				}
			}
		case *ssa.BinOp:
			switch t.Op {
			case token.OR:
				if byteLoads(t) >= 2 {
					return true
				}
				return wire(t.X, depth+1, seen) || wire(t.Y, depth+1, seen)
			case token.ADD, token.SUB, token.MUL, token.SHL:
				return wire(t.X, depth+1, seen) || wire(t.Y, depth+1, seen)
			}
		case *ssa.UnOp:
			if t.Op == token.MUL {
				if fa, ok := t.X.(*ssa.FieldAddr); ok {
					return fields[core.FieldKeyOf(fa.X.Type(), fa.Field)]
				}
			}
		}
		return false
	}
	// fields that receive a wire integer (fixpoint, the field set only grows)
	for changed := true; changed; {
		changed = false
		for _, fn := range p.Funcs() {
			for _, b := range fn.Blocks {
				for _, ins := range b.Instrs {
					st, ok := ins.(*ssa.Store)
					if !ok {
						continue
					}
					fa, ok := st.Addr.(*ssa.FieldAddr)
					if !ok {
						continue
					}
					if _, isInt := st.Val.Type().Underlying().(*types.Basic); !isInt {
						continue
					}
					k := core.FieldKeyOf(fa.X.Type(), fa.Field)
					if !fields[k] && wire(st.Val, 0, map[ssa.Value]bool{}) {
						fields[k] = true
						changed = true
					}
				}
			}
		}
	}
	return func(v ssa.Value) bool { return wire(v, 0, map[ssa.Value]bool{}) }, fields
}

func c13R10(p *core.Prog, r *core.Report) {
	const rule = "C13/R10"
	r.Rule(rule, "every make() whose length or capacity derives from an integer decoded from the wire (strconv parse, multi-byte word from a byte slice, or a field holding one) is bounded by the width of the decoded word (at most 32 bits) or by a test on its path", 4)
	isWire, fields := c13WireInts(p)
	r.Stats["R10_wire_fields"] = len(fields)
	const limit = int64(1) << 33
	// the largest value the static types allow (a word assembled from uint32/uint16/byte
	// pieces cannot exceed its type; only untyped-width integers - strconv results, int
	// fields - need a test on the path)
	var typeBound func(v ssa.Value, d int) int64
	typeBound = func(v ssa.Value, d int) int64 {
		const inf = int64(1) << 62
		if d > 12 {
			return inf
		}
		if c, ok := v.(*ssa.Const); ok && c.Value != nil {
			if n := c.Int64(); n >= 0 {
				return n
			}
			return inf
		}
		byType := inf
		if b, ok := v.Type().Underlying().(*types.Basic); ok {
			switch b.Kind() {
			case types.Uint8:
				byType = 255
			case types.Uint16:
				byType = 65535
			case types.Uint32:
				byType = 1<<32 - 1
			}
		}
		byShape := inf
		switch t := v.(type) {
		case *ssa.Convert:
			byShape = typeBound(t.X, d+1)
		case *ssa.BinOp:
			switch t.Op {
			case token.OR, token.ADD:
				a, b := typeBound(t.X, d+1), typeBound(t.Y, d+1)
				if a < inf && b < inf {
					byShape = a + b
				}
			case token.SHL:
				if k, ok := t.Y.(*ssa.Const); ok && k.Int64() < 31 {
					if a := typeBound(t.X, d+1); a < 1<<31 {
						byShape = a << uint(k.Int64())
					}
				}
			}
		}
		if byShape < byType {
			return byShape
		}
		return byType
	}
	ordinal := func(fn *ssa.Function, mk *ssa.MakeSlice) int {
		n := 0
		for _, b := range fn.Blocks {
			for _, ins := range b.Instrs {
				if m, ok := ins.(*ssa.MakeSlice); ok {
					n++
					if m == mk {
						return n
					}
				}
			}
		}
		return 0
	}
	for _, fn := range p.Funcs() {
		if fn.Blocks == nil || p.IsNewFunc(fn) {
			continue
		}
		pkg := strings.SplitN(core.FuncName(fn), ".", 2)[0]
		if pkg != "server" && pkg != "protocol" {
			continue
		}
		has := false
		for _, b := range fn.Blocks {
			for _, ins := range b.Instrs {
				if mk, ok := ins.(*ssa.MakeSlice); ok && (isWire(mk.Len) || isWire(mk.Cap)) {
					has = true
				}
			}
		}
		if !has {
			continue
		}
		name := core.FuncName(fn)
		done := map[string]bool{}
		ex := core.NewExplorer(p, core.Hooks{
			Track: func(x *core.X, a core.Atom) bool {
				_, okR := core.ParseIntStr(a.R)
				_, okL := core.ParseIntStr(a.L)
				return okR || okL
			},
			Instr: func(x *core.X) {
				mk, ok := x.Ins.(*ssa.MakeSlice)
				if !ok {
					return
				}
				for _, sz := range []ssa.Value{mk.Len, mk.Cap} {
					if !isWire(sz) {
						continue
					}
					key := fmt.Sprintf("%s: make#%d", core.FuncName(mk.Parent()), ordinal(mk.Parent(), mk))
					if typeBound(sz, 0) < limit {
						if !done[key] {
							r.Hold(rule, key, x.Pos(), "size bounded by the width of the decoded word")
						}
						done[key] = true
						continue
					}
					lin := core.ParseLin(core.Plain(x.Canon(sz).S))
					unbounded := ""
					for term, coef := range lin.T {
						if coef <= 0 || strings.HasPrefix(term, "len(") || strings.HasPrefix(term, "cap(") {
							continue
						}
						ub := x.St.Facts.UpperBound(term)
						if ub >= limit {
							unbounded = term
						}
					}
					if unbounded == "" {
						if !done[key] {
							r.Hold(rule, key, x.Pos(), "size bounded on the path")
						}
					} else {
						r.Violate(rule, key, x.Pos(), "make() is sized by "+unbounded+", an integer decoded from the wire, with no upper bound on this path: a client that sends a huge number makes the runtime panic (makeslice: len/cap out of range) in a goroutine without recover(), which ends the process", x.St.Trace)
					}
					done[key] = true
				}
			},
		})
		ex.MaxSteps = 400000
		ex.Run(fn, nil)
		if ex.Imprecise != "" {
			r.Fail("C13/R10 %s: %s", name, ex.Imprecise)
		}
	}
}

// c13WireIndex reports whether an index value comes from a client's message
// and the largest value its static type admits. Fields of the generated
// protobuf request messages and of the decoded wire commands are wire data.
func c13WireIndex(v ssa.Value, isWire func(ssa.Value) bool) (bool, int64) {
	width := int64(1) << 62
	if b, ok := v.Type().Underlying().(*types.Basic); ok {
		switch b.Kind() {
		case types.Uint8:
			width = 255
		case types.Uint16:
			width = 65535
		case types.Uint32:
			width = 1<<32 - 1
		}
	}
	inner := v
	for {
		if c, ok := inner.(*ssa.Convert); ok {
			inner = c.X
			if b, ok := inner.Type().Underlying().(*types.Basic); ok {
				switch b.Kind() {
				case types.Uint8:
					if width > 255 {
						width = 255
					}
				case types.Uint16:
					if width > 65535 {
						width = 65535
					}
				}
			}
			continue
		}
		break
	}
	if isWire(v) {
		return true, width
	}
	if u, ok := inner.(*ssa.UnOp); ok && u.Op == token.MUL {
		if fa, ok := u.X.(*ssa.FieldAddr); ok {
			t := fa.X.Type()
			if pt, ok := t.Underlying().(*types.Pointer); ok {
				t = pt.Elem()
			}
			if nt, ok := t.(*types.Named); ok && nt.Obj().Pkg() != nil {
				path := nt.Obj().Pkg().Path()
				if strings.HasSuffix(path, "/protocol/protobuf") || strings.HasSuffix(path, "/protocol") {
					return true, width
				}
			}
		}
	}
	return false, width
}

// ---------------------------------------------------------------------------
// R12: the value operations cut the key's stored frame with lengths the
// request supplies (SHIFT n). A slice expression on the stored frame whose
// bound contains such a length must be within the frame on every path, by the
// path's own comparisons (linear entailment); otherwise one request with a
// large length panics under the shard mutex in the connection's goroutine.
func c13R12(p *core.Prog, r *core.Report) {
	const rule = "C13/R12"
	r.Rule(rule, "ProcessLockData: every slice of the stored value frame whose bound contains a length taken from the request (an integer accessor of the request's data) is within the frame by the path's comparisons", 2)
	fn := mustFunc(p, r, "server.(*LockManager).ProcessLockData")
	if fn == nil {
		return
	}
	isRequestLength := func(s string) bool {
		// an integer accessor of the request's data frame: Get...Value(<request>.Data)
		i := strings.Index(s, "Get")
		for i >= 0 {
			rest := s[i:]
			if j := strings.Index(rest, "("); j > 0 {
				name := rest[:j]
				if strings.HasSuffix(name, "Value") && !strings.Contains(name, " ") && strings.Contains(rest[j:], ".Data)") {
					return true
				}
			}
			k := strings.Index(s[i+3:], "Get")
			if k < 0 {
				break
			}
			i += 3 + k
		}
		return false
	}
	// does the SSA value contain a phi one of whose alternatives is a request accessor
	var requestPhi func(v ssa.Value) bool
	requestPhi = func(v ssa.Value) bool {
		seen := map[ssa.Value]bool{}
		var walk func(v ssa.Value, d int) bool
		walk = func(v ssa.Value, d int) bool {
			if d > 8 || seen[v] {
				return false
			}
			seen[v] = true
			switch t := v.(type) {
			case *ssa.Phi:
				for _, e := range t.Edges {
					if walk(e, d+1) {
						return true
					}
				}
			case *ssa.BinOp:
				return walk(t.X, d+1) || walk(t.Y, d+1)
			case *ssa.Convert:
				return walk(t.X, d+1)
			case *ssa.Call:
				if callee := t.Common().StaticCallee(); callee != nil && strings.HasPrefix(callee.Name(), "Get") && strings.HasSuffix(callee.Name(), "Value") && recvName(callee) == "LockCommandData" {
					return true
				}
			}
			return false
		}
		return walk(v, 0)
	}
	n := 0
	done := map[string]bool{}
	ex := core.NewExplorer(p, core.Hooks{
		Track: func(x *core.X, a core.Atom) bool { return isRequestLength(a.String()) },
		ResolvePhi: func(phi *ssa.Phi) bool {
			// a request length merged with its clamp: follow each alternative on its own path
			for _, e := range phi.Edges {
				v := e
				for {
					if c, ok := v.(*ssa.Convert); ok {
						v = c.X
						continue
					}
					break
				}
				if c, ok := v.(*ssa.Call); ok {
					if callee := c.Common().StaticCallee(); callee != nil && strings.HasPrefix(callee.Name(), "Get") && strings.HasSuffix(callee.Name(), "Value") {
						return true
					}
				}
			}
			return false
		},
		Instr: func(x *core.X) {
			if !x.Top() {
				return
			}
			sl, ok := x.Ins.(*ssa.Slice)
			if !ok {
				return
			}
			base := core.Plain(x.Canon(sl.X).S)
			if !strings.HasSuffix(base, "urrentData.data") && !strings.HasSuffix(base, "LockData.data") {
				return
			}
			var facts []core.Lin
			for _, a := range x.St.Facts.All() {
				pa := core.Atom{L: core.Plain(a.L), Op: a.Op, R: core.Plain(a.R)}
				facts = append(facts, core.AtomLin(pa)...)
			}
			for h := range x.St.Hist {
				if at, ok := core.ParseAtom(core.Plain(h)); ok {
					facts = append(facts, core.AtomLin(at)...)
				}
			}
			for which, b := range map[string]ssa.Value{"low": sl.Low, "high": sl.High} {
				if b == nil {
					continue
				}
				e := core.Plain(x.Canon(b).S)
				if !isRequestLength(e) && !strings.Contains(e, "len("+base+")") {
					continue
				}
				if !isRequestLength(e) && !requestPhi(b) {
					continue
				}
				key := fmt.Sprintf("server.(*LockManager).ProcessLockData: stored frame %s bound %s", which, stable(e))
				n++
				target := core.ParseLin("len(" + base + ")").Sub(core.ParseLin(e))
				if core.LinEntails(facts, target) {
					if !done[key] {
						r.Hold(rule, key, x.Pos(), "within the frame by the path's comparisons")
					}
				} else {
					r.Violate(rule, key, x.Pos(), "the stored frame "+base+" is sliced at "+e+", which contains a length supplied by the request, and the path's comparisons do not keep it within the frame: a request with a large length panics (slice bounds out of range) under the shard mutex in the connection's goroutine", x.St.Trace)
				}
				done[key] = true
			}
		},
	})
	ex.MaxSteps = 400000
	ex.Run(fn, nil)
	if ex.Imprecise != "" {
		r.Fail("C13/R12: %s", ex.Imprecise)
	}
	if n == 0 {
		r.Fail("C13/R12: no slice of the stored frame bounded by a request length found")
	}
}

// ---------------------------------------------------------------------------
// R13: the accessors of a value frame (LockCommandData / LockResultCommandData)
// walk its contents with a cursor that the frame's own length fields advance
// (property header, array and key-value elements). The frame comes from a
// client and is stored as it is; another client's listing command walks it
// later. Every read at a cursor position therefore needs a comparison of the
// cursor with the frame's length that dominates it.
func c13R13(p *core.Prog, r *core.Report) {
	const rule = "C13/R13"
	r.Rule(rule, "value-frame walkers: every read of a frame at a loop-carried cursor is dominated by a comparison of that cursor with the frame's length, and a slice whose end adds a length decoded from the frame is dominated by a comparison that includes that length", 8)
	n := 0
	frameField := func(k core.FieldKey) bool {
		switch k.Type + "." + k.Field {
		case "protocol.LockCommandData.Data", "protocol.LockResultCommandData.Data", "server.LockManagerData.data":
			return true
		}
		return false
	}
	for _, pkg := range []string{"protocol", "server"} {
		for _, fn := range p.FuncsIn(pkg) {
			if fn.Blocks == nil {
				continue
			}
			// the frame value: a load of one of the frame fields; two loads of the same field
			// of the same base are the same frame
			frameOf := func(v ssa.Value) (string, bool) {
				u, ok := v.(*ssa.UnOp)
				if !ok {
					return "", false
				}
				fa, ok := u.X.(*ssa.FieldAddr)
				if !ok || !frameField(core.FieldKeyOf(fa.X.Type(), fa.Field)) {
					return "", false
				}
				return accessPath(fa.X) + "." + core.FieldKeyOf(fa.X.Type(), fa.Field).Field, true
			}
			var leaves func(v ssa.Value, phis map[*ssa.Phi]bool, decoded map[ssa.Value]bool, d int)
			leaves = func(v ssa.Value, phis map[*ssa.Phi]bool, decoded map[ssa.Value]bool, d int) {
				if d > 8 {
					return
				}
				switch t := v.(type) {
				case *ssa.Phi:
					// loop-carried only: the phi sits in a loop header
					for _, pred := range t.Block().Preds {
						if t.Block().Dominates(pred) {
							phis[t] = true
						}
					}
				case *ssa.BinOp:
					if t.Op == token.OR || t.Op == token.SHL {
						// a word assembled from frame bytes: one decoded length
						decoded[v] = true
						return
					}
					leaves(t.X, phis, decoded, d+1)
					leaves(t.Y, phis, decoded, d+1)
				case *ssa.Convert:
					if _, isBin := t.X.(*ssa.BinOp); isBin {
						if b := t.X.(*ssa.BinOp); b.Op == token.OR || b.Op == token.SHL {
							decoded[v] = true
							return
						}
					}
					leaves(t.X, phis, decoded, d+1)
				}
			}
			lenOf := func(v ssa.Value) (string, bool) {
				if c, ok := v.(*ssa.Convert); ok {
					v = c.X
				}
				c, ok := v.(*ssa.Call)
				if !ok {
					return "", false
				}
				b, ok := c.Common().Value.(*ssa.Builtin)
				if !ok || b.Name() != "len" || len(c.Common().Args) != 1 {
					return "", false
				}
				return frameOf(c.Common().Args[0])
			}
			type guard struct {
				frame   string
				phis    map[*ssa.Phi]bool
				decoded map[ssa.Value]bool
				blk     *ssa.BasicBlock
			}
			var guards []guard
			for _, b := range fn.Blocks {
				if len(b.Instrs) == 0 {
					continue
				}
				ifi, ok := b.Instrs[len(b.Instrs)-1].(*ssa.If)
				if !ok {
					continue
				}
				cmp, ok := ifi.Cond.(*ssa.BinOp)
				if !ok {
					continue
				}
				var other ssa.Value
				frame := ""
				if f, ok := lenOf(cmp.Y); ok {
					other, frame = cmp.X, f
				} else if f, ok := lenOf(cmp.X); ok {
					other, frame = cmp.Y, f
				} else {
					continue
				}
				ph, dec := map[*ssa.Phi]bool{}, map[ssa.Value]bool{}
				leaves(other, ph, dec, 0)
				if len(ph) > 0 {
					guards = append(guards, guard{frame, ph, dec, b})
				}
			}
			ord := 0
			for _, b := range fn.Blocks {
				for _, ins := range b.Instrs {
					var idx ssa.Value
					frame := ""
					isSliceEnd := false
					switch t := ins.(type) {
					case *ssa.IndexAddr:
						if f, ok := frameOf(t.X); ok {
							idx, frame = t.Index, f
						}
					case *ssa.Slice:
						if f, ok := frameOf(t.X); ok {
							frame = f
							if t.High != nil {
								idx, isSliceEnd = t.High, true
							} else {
								idx = t.Low
							}
						}
					}
					if idx == nil {
						continue
					}
					ph, dec := map[*ssa.Phi]bool{}, map[ssa.Value]bool{}
					leaves(idx, ph, dec, 0)
					if len(ph) == 0 {
						continue
					}
					ord++
					n++
					key := fmt.Sprintf("%s: frame read at a cursor #%d", core.FuncName(fn), ord)
					cursorOK, lengthOK := false, !isSliceEnd || len(dec) == 0
					for _, g := range guards {
						if g.frame != frame || !g.blk.Dominates(b) || g.blk == b {
							continue
						}
						shared := false
						for q := range ph {
							if g.phis[q] {
								shared = true
							}
						}
						if !shared {
							continue
						}
						cursorOK = true
						if isSliceEnd && len(dec) > 0 {
							all := true
							for dv := range dec {
								if !g.decoded[dv] {
									all = false
								}
							}
							if all {
								lengthOK = true
							}
						}
					}
					switch {
					case cursorOK && lengthOK:
						r.Hold(rule, key, p.InstrPos(ins), "dominated by a comparison with the frame's length")
					case !cursorOK:
						r.Violate(rule, key, p.InstrPos(ins), "the frame is read at a cursor that the frame's own length fields advance, and no comparison of that cursor with the frame's length dominates the read: a client stores a value whose header announces more than the frame carries, and the next command of any client that walks the value reads past the frame's end (index out of range in that connection's goroutine - the process ends)", nil)
					default:
						r.Violate(rule, key, p.InstrPos(ins), "the frame is sliced up to cursor + a length decoded from the frame itself, and no dominating comparison with the frame's length includes that decoded length: an element that announces more bytes than the frame carries makes the slice run past the frame's end (slice bounds out of range in the connection's goroutine - the process ends)", nil)
					}
				}
			}
		}
	}
	if n == 0 {
		r.Fail("C13/R13: no cursor walk over a value frame found")
	}
}

// accessPath names a value by the chain of parameters and fields it is loaded
// through (two loads of the same field of the same object get the same name).
func accessPath(v ssa.Value) string {
	switch t := v.(type) {
	case *ssa.Parameter:
		return t.Name()
	case *ssa.UnOp:
		if t.Op == token.MUL {
			return accessPath(t.X)
		}
	case *ssa.FieldAddr:
		return accessPath(t.X) + "." + core.FieldKeyOf(t.X.Type(), t.Field).Field
	}
	return v.Name()
}

// ---------------------------------------------------------------------------
// R14: GetValueOffset is where a value frame's property header (whose length
// the client writes) turns into a position in the frame; every caller slices
// or sizes with it. It must never answer a position beyond the frame.
func c13R14(p *core.Prog, r *core.Report) {
	const rule = "C13/R14"
	r.Rule(rule, "GetValueOffset of the three value-frame types returns a constant, the frame's length, or a value the path has compared <= the frame's length", 3)
	n := 0
	for _, name := range []string{"protocol.(*LockCommandData).GetValueOffset", "protocol.(*LockResultCommandData).GetValueOffset", "server.(*LockManagerData).GetValueOffset"} {
		fn := mustFunc(p, r, name)
		if fn == nil {
			continue
		}
		self := fn.Params[0].Name()
		field := "Data"
		if strings.HasPrefix(name, "server.") {
			field = "data"
		}
		frameLen := "len(" + self + "." + field + ")"
		bad := false
		ex := core.NewExplorer(p, core.Hooks{
			Track: func(x *core.X, a core.Atom) bool { return strings.Contains(core.Plain(a.String()), frameLen) },
			Exit: func(x *core.X, rets []core.Expr) {
				if len(rets) != 1 || bad {
					return
				}
				e := core.Plain(rets[0].S)
				if _, ok := core.ParseIntStr(e); ok || e == frameLen {
					return
				}
				var facts []core.Lin
				for _, a := range x.St.Facts.All() {
					facts = append(facts, core.AtomLin(core.Atom{L: core.Plain(a.L), Op: a.Op, R: core.Plain(a.R)})...)
				}
				for h := range x.St.Hist {
					if at, ok := core.ParseAtom(core.Plain(h)); ok {
						facts = append(facts, core.AtomLin(at)...)
					}
				}
				if core.LinEntails(facts, core.ParseLin(frameLen).Sub(core.ParseLin(e))) {
					return
				}
				bad = true
				r.Violate(rule, name+": offset within the frame", x.Pos(), "GetValueOffset returns "+e+", computed from the property-header length the client wrote, without comparing it with the frame's length: a frame that announces a longer property header than it carries makes every caller slice or size beyond the frame (SHIFT, APPEND, PIPELINE, PUSH panic in the connection goroutine)", x.St.Trace)
			},
		})
		ex.Run(fn, nil)
		if ex.Imprecise != "" {
			r.Fail("C13/R14 %s: %s", name, ex.Imprecise)
			continue
		}
		n++
		if !bad {
			r.Hold(rule, name+": offset within the frame", p.Pos(fn.Pos()), "every computed offset is compared with the frame's length")
		}
	}
	if n == 0 {
		r.Fail("C13/R14: no GetValueOffset found")
	}
}
