package rules

import (
	"fmt"
	"regexp"
	"sort"
	"strings"

	"golang.org/x/tools/go/ssa"

	"slockverif/internal/core"
)

func init() { Registry["C01"] = checkC01 }

// Protected hold-state fields (DESIGN.md C01-R3), confirmed by reading
// server/lock.go: every one of them is read by the admission decision or by
// the holder/waiter bookkeeping that the decision relies on.
var protectedFields = map[core.FieldKey]bool{}

func init() {
	for _, f := range []string{"locked", "currentLock", "currentData", "locks", "waitLocks", "waited"} {
		protectedFields[core.FieldKey{Type: "server.LockManager", Field: f}] = true
	}
	for _, f := range []string{"locked", "timeouted", "expried", "ackCount", "refCount", "command", "protocol", "data",
		"expriedTime", "timeoutTime", "startTime", "isAof", "aofTime", "longWaitIndex", "timeoutCheckedCount", "expriedCheckedCount"} {
		protectedFields[core.FieldKey{Type: "server.Lock", Field: f}] = true
	}
}

func checkC01(p *core.Prog, r *core.Report) {
	r.Explanation = "Decides structural necessary conditions of the capacity bound: (R1/R5) every grant as a new holder (call of LockManager.AddLock) is reached only through the true side of the admission predicate doLock for the same manager and lock, with the shard mutex held continuously from the predicate to the holder-list insert and the depth increment; (R2) every true-returning path of doLock entails locked==0 or locked<=request.Count and locked<=oldest.Count (less-lock-version paths exempt as in the property); (R3) every store to hold-state fields of LockManager/Lock happens with the shard mutex held (interprocedural lock-state, entry state = join over call sites); (R4) after taking a manager's mutex the key is re-checked before any use; (R5) GetOrNewLockManager publishes a fresh manager for a key only after a slow-map lookup of that key on the path or after reading the bucket counter as 0, and inserts into the slow map only inside the write-locked section of its lookup. (R6) RemoveLockManager zeroes the manager's key before returning it to the pool (what makes R4's re-check reject a recycled manager); (R7) SLock.GetOrNewDB publishes a new database only after testing the slot empty under the mutex held at the store. (R8) a key's fast slot is cleared only after its manager was tombstoned or after it was inserted into the slow map on the same path (a live manager is never in neither table). NOT decided: linearizability of the lock-free key table beyond R5/R8 (the CAS protocol on the slot word, retirement races), PriorityMutex lanes, that LockManager.locked equals the number of holders, holding the wrong shard's mutex (one abstract lock per mutex type)."
	r.Assumptions = []string{
		"Go type checker, go/ssa and the VTA call graph are correct for /repo",
		"all *PriorityMutex values are one abstract lock class (wrong-shard locking is not detected)",
		"sync/atomic operations are not hold-state writes",
	}
	c01R2(p, r)
	c01R1(p, r)
	c01R4(p, r)
	c01R3(p, r)
	c01R5(p, r)
	c01R6(p, r)
	c01R7(p, r)
	c01R8(p, r)
}

// ---------------------------------------------------------------------------
// R5: one manager per key. GetOrNewLockManager publishes a fresh manager for a
// key (store to a fast slot's manager field, or insertion into the slow map)
// only on a path that ruled out an existing manager for that key: it looked
// the key up in the slow map (and did not return the hit), or it read the
// bucket counter as zero (no key of this bucket exists anywhere). A second
// manager for a live key admits a second set of holders.
func c01R5(p *core.Prog, r *core.Report) {
	const rule = "C01/R5"
	r.Rule(rule, "GetOrNewLockManager publishes a fresh manager only after ruling out an existing one for the key (slow-map lookup on the path, or bucket counter read as 0); the slow-map insert is in the write-locked section of its lookup", 3)
	fn := mustFunc(p, r, "server.(*LockDB).GetOrNewLockManager")
	if fn == nil {
		return
	}
	cmd := fn.Params[1].Name()
	ex := core.NewExplorer(p, core.Hooks{
		Track: func(x *core.X, a core.Atom) bool {
			s := a.String()
			return strings.Contains(s, ".count)") || strings.Contains(s, ".locks[")
		},
		Instr: func(x *core.X) {
			if !x.Top() {
				return
			}
			if cl, acq, ok := trackLocks(x); ok {
				if cl == "mGlock" && !acq {
					x.Set("lkw", "")
				}
				return
			}
			ruledOut := func() (bool, string) {
				if x.Get("lk") == "1" {
					return true, "slow-map lookup on the path"
				}
				for h := range x.St.Hist {
					hp := core.Plain(h)
					if strings.Contains(hp, ".count)") && (strings.HasSuffix(hp, " <= 0") || strings.HasSuffix(hp, " == 0")) && strings.HasPrefix(hp, "LoadUint32(") {
						return true, "bucket counter read as 0"
					}
				}
				return false, ""
			}
			switch t := x.Ins.(type) {
			case *ssa.Lookup:
				if strings.HasSuffix(core.Plain(x.Canon(t.X).S), ".locks") && core.Plain(x.Canon(t.Index).S) == cmd+".LockKey" {
					x.Set("lk", "1")
					if held(x, "mGlock") {
						x.Set("lkw", "1")
					}
				}
			case *ssa.Store:
				k, ok := storeKey(t.Addr)
				if !ok || k.Field != "manager" || k.Type != "server.FastKeyValue" {
					return
				}
				if x.Canon(t.Val).S == "nil" {
					return
				}
				key := siteKey(p, x.Ins)
				if ok, why := ruledOut(); ok {
					r.Hold(rule, key, x.Pos(), "fast-slot publication after "+why)
				} else {
					r.Violate(rule, key, x.Pos(), "a fresh manager is published in the fast slot on a path that neither looked the key up in the slow map nor read the bucket counter as 0: a key living in the slow map gets a second manager (two sets of holders)", x.St.Trace)
				}
			case *ssa.MapUpdate:
				if !strings.HasSuffix(core.Plain(x.Canon(t.Map).S), ".locks") {
					return
				}
				key := siteKey(p, x.Ins)
				if x.Get("lkw") == "1" && held(x, "mGlock") {
					r.Hold(rule, key, x.Pos(), "slow-map insert in the locked section of its lookup")
				} else {
					r.Violate(rule, key, x.Pos(), "slow-map insert without a lookup of the key in the same mGlock section: two requests for a new key both insert a manager", x.St.Trace)
				}
			}
		},
	})
	ex.Run(fn, nil)
	if ex.Imprecise != "" {
		r.Fail("C01/R5: %s", ex.Imprecise)
	}
}

// ---------------------------------------------------------------------------
// R2: predicate content of doLock

var reCmpVersion = regexp.MustCompile(`compareLockVersion\(`)

func c01R2(p *core.Prog, r *core.Report) {
	const rule = "C01/R2"
	r.Rule(rule, "every true-returning path of LockDB.doLock entails locked==0 or (locked<=request.Count and locked<=oldest.Count)", 3)
	fn := mustFunc(p, r, "server.(*LockDB).doLock")
	if fn == nil || len(fn.Params) < 3 {
		return
	}
	mgr, lk := fn.Params[1].Name(), fn.Params[2].Name()
	locked := mgr + ".locked"
	reqCount := "uint32(" + lk + ".command.Count)"
	oldCount := "uint32(" + mgr + ".currentLock.command.Count)"
	ex := core.NewExplorer(p, core.Hooks{
		Inline: func(x *core.X, callee *ssa.Function) bool { return pureBoolHelper(p, callee) },
		Track:  func(x *core.X, a core.Atom) bool { return true },
		Exit: func(x *core.X, rets []core.Expr) {
			if len(rets) != 1 || rets[0].S == "false" {
				return
			}
			if rets[0].S != "true" {
				// a result that is not a constant on this path (comparison or
				// call of a helper that was not inlined) may be true: the path
				// must satisfy the bound like a true-returning path
				rets = []core.Expr{{S: "true"}}
			}
			// path class: atoms over the depth and the two Counts
			var cls []string
			for _, a := range x.St.Facts.All() {
				s := a.String()
				if reCmpVersion.MatchString(s) || strings.Contains(s, "TimeoutFlag") {
					continue
				}
				cls = append(cls, s)
			}
			sort.Strings(cls)
			key := "server.(*LockDB).doLock: true-path{" + stable(strings.Join(cls, " && ")) + "}"
			pos := x.Pos()
			if rets[0].S != "true" {
				r.Violate(rule, key, pos, "doLock returns a non-constant result "+rets[0].S+"; admission cannot be classified", x.St.Trace)
				return
			}
			f := &x.St.Facts
			zero := f.Implies(core.MkAtom(locked, "==", "0", nil))
			b1 := f.HasText(locked + " <= " + reqCount)
			b2 := f.HasText(locked + " <= " + oldCount)
			switch {
			case zero:
				r.Hold(rule, key, pos, "key free (locked==0)")
			case b1 && b2:
				r.Hold(rule, key, pos, "locked<=request.Count && locked<=oldest.Count")
			default:
				r.Violate(rule, key, pos, fmt.Sprintf("admits without the Count bound (request bound present=%v, oldest-holder bound present=%v)", b1, b2), x.St.Trace)
			}
		},
	})
	ex.Run(fn, nil)
	r.Stats["R2_steps"] = ex.Steps
	if ex.Imprecise != "" {
		r.Fail("C01/R2: %s", ex.Imprecise)
	}
}

// ---------------------------------------------------------------------------
// R1/R5: admission dominance at every AddLock call site

type ctxResult struct {
	top     string
	verdict string
	msg     string
	path    []string
	pos     string
	needCtx bool // the mutex was already held at function entry: callers decide
}

func c01R1(p *core.Prog, r *core.Report) {
	const rule = "C01/R1"
	r.Rule(rule, "every call of LockManager.AddLock (grant as new holder) follows doLock(sameManager, sameLock)==true with the shard mutex held from the predicate through the insert and the locked++ store, in every calling context", 3)
	doLock := mustFunc(p, r, "server.(*LockDB).doLock")
	addLock := mustFunc(p, r, "server.(*LockManager).AddLock")
	if doLock == nil || addLock == nil {
		return
	}
	lockedKey := fk("server.LockManager", "locked")
	curKey := fk("server.LockManager", "currentLock")

	// explore one top function with the given extra inline set; returns
	// per-site results.
	explore := func(top *ssa.Function, inl map[*ssa.Function]bool) map[string]*ctxResult {
		res := map[string]*ctxResult{}
		put := func(key string, c *ctxResult) {
			if o, ok := res[key]; !ok || (o.verdict == core.Holds && c.verdict != core.Holds) {
				res[key] = c
			}
		}
		ex := core.NewExplorer(p, core.Hooks{
			Inline: func(x *core.X, callee *ssa.Function) bool {
				return callee == doLock || inl[callee] || callee.Name() == "doCheckLockWaitPriority" || (underFrame(x, doLock) && pureBoolHelper(p, callee))
			},
			InlineReturn: func(x *core.X, callee *ssa.Function, rets []core.Expr) {
				if callee != doLock {
					return
				}
				if len(rets) == 1 && rets[0].S == "true" && held(x, "shard") && len(x.Fr.Args) >= 3 {
					x.Set("adm", x.Fr.Args[1].S+"|"+x.Fr.Args[2].S)
				} else {
					x.Set("adm", "")
				}
			},
			Instr: func(x *core.X) {
				if cl, acq, ok := trackLocks(x); ok {
					if acq && cl == "shard" {
						x.Set("acq", "1")
					}
					if !acq {
						if x.Get("pendinc") != "" {
							key := x.Get("pendinc")
							put(key, &ctxResult{core.FuncName(top), core.Violated, "shard mutex released between AddLock and the locked++ store", x.St.Trace, x.Pos(), false})
							x.Set("pendinc", "")
						}
						x.Set("adm", "")
					}
					return
				}
				switch t := x.Ins.(type) {
				case *ssa.Store:
					k, ok := storeKey(t.Addr)
					if !ok {
						return
					}
					if k == lockedKey {
						if x.Get("pendinc") != "" {
							val := x.Canon(t.Val).S
							addr := strings.TrimPrefix(x.Canon(t.Addr).S, "&")
							if val == "("+addr+" + 1)" {
								x.Set("pendinc", "")
								return
							}
						}
						x.Set("adm", "")
					} else if k == curKey {
						x.Set("adm", "")
					}
				case ssa.CallInstruction:
					callee := core.StaticCallee(x.Ins)
					if callee == addLock {
						key := siteKey(p, x.Ins)
						want := argCanon(x, x.Ins, 0) + "|" + argCanon(x, x.Ins, 1)
						switch {
						case !held(x, "shard"):
							put(key, &ctxResult{core.FuncName(top), core.Violated, "AddLock reached without the shard mutex held", x.St.Trace, x.Pos(), x.Get("acq") == ""})
						case x.Get("adm") != want:
							put(key, &ctxResult{core.FuncName(top), core.Violated, "AddLock(" + want + ") not dominated by doLock==true for the same manager and lock in this critical section (admitted: " + x.Get("adm") + ")", x.St.Trace, x.Pos(), x.Get("acq") == ""})
						default:
							put(key, &ctxResult{core.FuncName(top), core.Holds, "doLock==true for the same (manager, lock), mutex held", nil, x.Pos(), false})
							x.Set("pendinc", key)
						}
						return
					}
					if callee == doLock || inl[callee] {
						return
					}
					// other calls that may change depth / oldest holder invalidate the admission
					for _, c := range p.Callees(t) {
						w := p.MayWrite(c)
						if w[lockedKey] || w[curKey] {
							if x.Get("pendinc") == "" {
								x.Set("adm", "")
							}
							break
						}
					}
				}
			},
			Exit: func(x *core.X, rets []core.Expr) {
				if k := x.Get("pendinc"); k != "" {
					put(k, &ctxResult{core.FuncName(top), core.Violated, "function returns after AddLock without incrementing LockManager.locked", x.St.Trace, x.Pos(), false})
				}
			},
		})
		ex.Run(top, nil)
		r.Stats["R1_steps"] += ex.Steps
		if ex.Imprecise != "" {
			r.Fail("C01/R1 exploring %s: %s", core.FuncName(top), ex.Imprecise)
		}
		return res
	}

	// climb: a site violated in its own function may be admitted by a caller.
	final := map[string][]*ctxResult{}
	var climb func(top *ssa.Function, inl map[*ssa.Function]bool, depth int)
	climb = func(top *ssa.Function, inl map[*ssa.Function]bool, depth int) {
		res := explore(top, inl)
		bad := false
		for _, c := range res {
			if c.verdict != core.Holds && c.needCtx {
				bad = true
			}
		}
		callers := moduleCallers(p, top)
		if bad && depth < 3 && len(callers) > 0 {
			inl2 := map[*ssa.Function]bool{top: true}
			for k := range inl {
				inl2[k] = true
			}
			for _, g := range callers {
				climb(g, inl2, depth+1)
			}
			return
		}
		for k, c := range res {
			final[k] = append(final[k], c)
		}
	}
	seenTop := map[*ssa.Function]bool{}
	for _, s := range p.Callers(addLock) {
		f := s.Parent()
		if seenTop[f] {
			continue
		}
		seenTop[f] = true
		climb(f, map[*ssa.Function]bool{}, 0)
	}
	keys := make([]string, 0, len(final))
	for k := range final {
		keys = append(keys, k)
	}
	sort.Strings(keys)
	for _, k := range keys {
		for _, c := range final[k] {
			r.Add(rule, k+" (context "+c.top+")", c.pos, c.verdict, c.msg, c.path)
		}
	}
}

// ---------------------------------------------------------------------------
// R4: key re-check after taking a manager's mutex

var reMgrGlock = regexp.MustCompile(`^(Get(OrNew)?LockManager\([^@]*\)@[^.]*|phi@[^.]*)\.glock$`)

func c01R4(p *core.Prog, r *core.Report) {
	const rule = "C01/R4"
	r.Rule(rule, "a manager obtained from the key table is used only after `manager.lockKey == command.LockKey` was tested under its mutex; the failing side releases and retries", 3)
	for _, name := range []string{"server.(*LockDB).Lock", "server.(*LockDB).UnLock", "server.(*LockDB).HasLock"} {
		fn := mustFunc(p, r, name)
		if fn == nil {
			continue
		}
		found := 0
		ex := core.NewExplorer(p, core.Hooks{
			Instr: func(x *core.X) {
				if class, acq, ok := mutexOp(x, x.Ins); ok && class == "shard" {
					recv := strings.TrimPrefix(argCanon(x, x.Ins, 0), "&")
					if acq && reMgrGlock.MatchString(recv) {
						found++
						x.Set("need", siteKey(p, x.Ins)+"|"+strings.TrimSuffix(recv, ".glock"))
						x.Set("fail", "")
					} else if !acq {
						x.Set("fail", "")
						x.Set("need", "")
					}
					return
				}
				need := x.Get("need")
				if need == "" && x.Get("fail") == "" {
					return
				}
				switch x.Ins.(type) {
				case *ssa.Store, ssa.CallInstruction:
					key := need
					if key == "" {
						key = x.Get("fail")
					}
					site := strings.SplitN(key, "|", 2)[0]
					what := "before the key re-check"
					if need == "" {
						what = "on the failed side of the key re-check (must only release and retry)"
					}
					r.Violate(rule, site, x.Pos(), "manager state used "+what+": "+eventLabel(x.Ins), x.St.Trace)
					x.Set("need", "")
					x.Set("fail", "")
				}
			},
			Branch: func(x *core.X, a core.Atom) {
				need := x.Get("need")
				if need == "" {
					return
				}
				parts := strings.SplitN(need, "|", 2)
				mgr := parts[1]
				isKeyCmp := (a.L == mgr+".lockKey" && strings.HasSuffix(a.R, ".LockKey")) || (a.R == mgr+".lockKey" && strings.HasSuffix(a.L, ".LockKey"))
				if !isKeyCmp {
					r.Violate(rule, parts[0], x.Pos(), "branch on "+a.String()+" before the key re-check", x.St.Trace)
					x.Set("need", "")
					return
				}
				if a.Op == "==" {
					r.Hold(rule, parts[0], x.Pos(), "key re-checked under the mutex")
					x.Set("need", "")
				} else {
					x.Set("need", "")
					x.Set("fail", need)
				}
			},
			Exit: func(x *core.X, rets []core.Expr) {
				if need := x.Get("need"); need != "" {
					r.Violate(rule, strings.SplitN(need, "|", 2)[0], x.Pos(), "returns with the mutex taken and no key re-check", x.St.Trace)
				}
			},
		})
		ex.Run(fn, nil)
		if found == 0 {
			r.Fail("C01/R4: no manager mutex acquisition found in %s", name)
		}
		if ex.Imprecise != "" {
			r.Fail("C01/R4 %s: %s", name, ex.Imprecise)
		}
	}
}

// ---------------------------------------------------------------------------
// R3: hold-state stores happen under the shard mutex

// c01R3Exempt lists functions whose stores are to objects no other goroutine
// can reach yet, one reason each (confirmed by reading).
var c01R3Exempt = map[string]string{
	"server.NewLockManager":               "constructor: the object is not published yet",
	"server.NewLock":                      "constructor: the object is not published yet",
	"server.(*LockDB).initNewLockManager": "fills pool objects that are still tombstoned (refCount 0xffffffff) and not in the key table",
}

// ackCount is dual-protected (DESIGN.md C01-R3): also written under
// ReplicationAckDB.ackGlocks[i].
var ackCountKey = fk("server.Lock", "ackCount")

func c01R3(p *core.Prog, r *core.Report) {
	const rule = "C01/R3"
	r.Rule(rule, "every store to a hold-state field of LockManager/Lock is executed with the shard mutex held (Lock.ackCount: shard mutex or the ack table's mutex) in every calling context reachable from a goroutine root", 150)
	type obs struct {
		pos      string
		unheldIn []string
		heldIn   int
		path     []string
	}
	sites := map[string]*obs{}
	ls := &lockState{p: p, r: r, classes: map[string]bool{"shard": true, "ackGlocks": true},
		isStore: func(k core.FieldKey) bool { return protectedFields[k] },
	}
	ls.observe = func(x *core.X, top *ssa.Function, entry string) {
		st, ok := x.Ins.(*ssa.Store)
		if !ok {
			return
		}
		k, ok := storeKey(st.Addr)
		if !ok || !protectedFields[k] {
			return
		}
		key := siteKey(p, x.Ins)
		o := sites[key]
		if o == nil {
			o = &obs{pos: x.Pos()}
			sites[key] = o
		}
		h := held(x, "shard") || (k == ackCountKey && held(x, "ackGlocks"))
		if h {
			o.heldIn++
		} else {
			ctx := ls.chain(top, entry)
			dup := false
			for _, c := range o.unheldIn {
				if c == ctx {
					dup = true
				}
			}
			if !dup {
				o.unheldIn = append(o.unheldIn, ctx)
				o.path = x.St.Trace
			}
		}
	}
	ls.run()
	if len(ls.Dead) > 0 {
		r.Notes = append(r.Notes, "C01/R3 not analysed (no caller of any kind, unreachable): "+strings.Join(ls.Dead, ", "))
	}
	keys := make([]string, 0, len(sites))
	for k := range sites {
		keys = append(keys, k)
	}
	sort.Strings(keys)
	for _, k := range keys {
		o := sites[k]
		fn := strings.SplitN(k, ": ", 2)[0]
		if reason, ok := c01R3Exempt[fn]; ok {
			r.Hold(rule, k, o.pos, "exempt: "+reason)
			continue
		}
		// a helper that did not exist when the exemptions were confirmed inherits the
		// exemption when every unlocked context reaches it through an exempt function
		if f := p.Func(fn); f != nil && p.IsNewFunc(f) && len(o.unheldIn) > 0 {
			via := ""
			for _, ctx := range o.unheldIn {
				found := ""
				for ex := range c01R3Exempt {
					if strings.Contains(ctx, "<- "+ex+"[") {
						found = ex
					}
				}
				if found == "" {
					via = ""
					break
				}
				via = found
			}
			if via != "" {
				r.Hold(rule, k, o.pos, "exempt through its caller "+via+": "+c01R3Exempt[via])
				continue
			}
		}
		if len(o.unheldIn) == 0 {
			r.Hold(rule, k, o.pos, "mutex held in every context")
		} else {
			r.Violate(rule, k, o.pos, "store without the shard mutex in context: "+strings.Join(o.unheldIn, "; "), o.path)
		}
	}
}

// ---------------------------------------------------------------------------
// R6: a manager returned to the pool carries no key. A request that looked the
// manager up and then parked on the shard mutex re-checks manager.lockKey
// against its own key after acquiring the mutex (R4); that re-check rejects a
// manager recycled in the meantime only because recycling zeroes the key. A
// pooled manager that keeps its last key lets the parked request be granted on
// an unpublished manager while the next request builds a second one.
func c01R6(p *core.Prog, r *core.Report) {
	const rule = "C01/R6"
	r.Rule(rule, "RemoveLockManager: on every path that returns the manager to the pool, all 16 bytes of its key were zeroed before", 1)
	fn := mustFunc(p, r, "server.(*LockDB).RemoveLockManager")
	if fn == nil {
		return
	}
	keyF := fk("server.LockManager", "lockKey")
	n := 0
	ex := core.NewExplorer(p, core.Hooks{
		Instr: func(x *core.X) {
			if !x.Top() {
				return
			}
			st, ok := x.Ins.(*ssa.Store)
			if !ok {
				return
			}
			// element store manager.lockKey[i] = 0
			if ia, ok := st.Addr.(*ssa.IndexAddr); ok {
				if fa, ok := ia.X.(*ssa.FieldAddr); ok && core.FieldKeyOf(fa.X.Type(), fa.Field) == keyF {
					if c, ok := ia.Index.(*ssa.Const); ok && c.Value != nil && x.Canon(st.Val).S == "0" {
						x.Set("kz:"+c.Value.ExactString(), "1")
					}
				}
				// the pool slot
				if k, ok := storeKey(ia.X); ok && k == fk("server.LockDB", "freeLockManagers") {
					_ = k
				}
			}
			if k, ok := storeKey(st.Addr); ok {
				if _, whole := st.Addr.(*ssa.FieldAddr); whole && k == keyF {
					if c, ok := st.Val.(*ssa.Const); ok && c.Value == nil {
						for i := 0; i < 16; i++ {
							x.Set(fmt.Sprintf("kz:%d", i), "1")
						}
					} else {
						for i := 0; i < 16; i++ {
							x.Set(fmt.Sprintf("kz:%d", i), "")
						}
					}
				}
				if k == fk("server.LockDB", "freeLockManagers") && x.Canon(st.Val).S != "nil" {
					n++
					zeroed := 0
					for i := 0; i < 16; i++ {
						if x.Get(fmt.Sprintf("kz:%d", i)) == "1" {
							zeroed++
						}
					}
					key := siteKey(p, x.Ins)
					if zeroed == 16 {
						r.Hold(rule, key, x.Pos(), "key zeroed before the manager is pooled")
					} else {
						r.Violate(rule, key, x.Pos(), fmt.Sprintf("manager returned to the pool with %d of 16 key bytes zeroed: a request parked on the shard mutex passes its key re-check on the recycled manager and is granted beside the key's new manager", zeroed), x.St.Trace)
					}
				}
			}
		},
	})
	ex.NoHist = true
	ex.Run(fn, nil)
	if ex.Imprecise != "" {
		r.Fail("C01/R6: %s", ex.Imprecise)
	}
	if n == 0 {
		r.Fail("C01/R6: no store of a manager into the free pool found in RemoveLockManager")
	}
}

// ---------------------------------------------------------------------------
// R7: one LockDB per database id. SLock.GetOrNewDB publishes a new database
// only after testing, under the server mutex it holds at the store, that the
// slot is still empty (check-then-act in one critical section). Two databases
// for one id are two independent admission domains for the same keys.
func c01R7(p *core.Prog, r *core.Report) {
	const rule = "C01/R7"
	r.Rule(rule, "SLock.GetOrNewDB stores a new LockDB into dbs[id] only on a path that tested dbs[id] == nil while holding the mutex held at the store", 1)
	fn := mustFunc(p, r, "server.(*SLock).GetOrNewDB")
	if fn == nil {
		return
	}
	n := 0
	ex := core.NewExplorer(p, core.Hooks{
		Track: func(x *core.X, a core.Atom) bool { return strings.Contains(core.Plain(a.String()), ".dbs[") },
		Branch: func(x *core.X, a core.Atom) {
			if !x.Top() {
				return
			}
			if strings.Contains(core.Plain(a.L), ".dbs[") && a.Op == "==" && a.R == "nil" && held(x, "glock") {
				x.Set("empty", "1")
			}
		},
		Instr: func(x *core.X) {
			if !x.Top() {
				return
			}
			if cl, acq, ok := trackLocks(x); ok {
				if cl == "glock" && !acq {
					x.Set("empty", "")
				}
				return
			}
			st, ok := x.Ins.(*ssa.Store)
			if !ok {
				return
			}
			ia, ok := st.Addr.(*ssa.IndexAddr)
			if !ok || !strings.HasSuffix(core.Plain(x.Canon(ia.X).S), ".dbs") || x.Canon(st.Val).S == "nil" {
				return
			}
			n++
			key := siteKey(p, x.Ins)
			switch {
			case !held(x, "glock"):
				r.Violate(rule, key, x.Pos(), "database table written without the server mutex", x.St.Trace)
			case x.Get("empty") != "1":
				r.Violate(rule, key, x.Pos(), "a new database is stored without re-testing, under the mutex held at the store, that the slot is still empty: two first requests for an id each build and use their own LockDB (two holders of one key)", x.St.Trace)
			default:
				r.Hold(rule, key, x.Pos(), "slot tested empty in the same critical section")
			}
		},
	})
	ex.Run(fn, nil)
	if ex.Imprecise != "" {
		r.Fail("C01/R7: %s", ex.Imprecise)
	}
	if n == 0 {
		r.Fail("C01/R7: no store into SLock.dbs found in GetOrNewDB")
	}
}

// ---------------------------------------------------------------------------
// R8: a live manager is always reachable through one of the two key tables.
// GetOrNewLockManager builds a fresh manager for a key it finds in neither the
// fast slot nor the slow map; if a live manager is taken out of its fast slot
// before it is in the slow map, a concurrent request builds a second manager
// for the key and both admit holders (two exclusive holders).
func c01R8(p *core.Prog, r *core.Report) {
	const rule = "C01/R8"
	r.Rule(rule, "the fast slot of a key is cleared only after the manager was retired (tombstoned by the reference-count CAS) or after it was inserted into the slow map on the same path", 2)
	slot := fk("server.FastKeyValue", "manager")
	n := 0
	for _, fn := range p.FuncsIn("server") {
		if fn.Blocks == nil {
			continue
		}
		clears := false
		for _, b := range fn.Blocks {
			for _, ins := range b.Instrs {
				if st, ok := ins.(*ssa.Store); ok {
					if k, ok := storeKey(st.Addr); ok && k == slot {
						if c, ok := st.Val.(*ssa.Const); ok && c.Value == nil {
							clears = true
						}
					}
				}
			}
		}
		if !clears || p.IsNewFunc(fn) {
			continue // a helper that did not exist at confirmation time is seen inline from its callers
		}
		name := core.FuncName(fn)
		ex := core.NewExplorer(p, core.Hooks{
			Track: func(x *core.X, a core.Atom) bool {
				return strings.Contains(core.Plain(a.String()), "CompareAndSwapUint32(")
			},
			Instr: func(x *core.X) {
				if mu, ok := x.Ins.(*ssa.MapUpdate); ok {
					if strings.HasSuffix(core.Plain(x.Canon(mu.Map).S), ".locks") {
						x.Set("inSlowMap", core.Plain(x.Canon(mu.Value).S))
					}
					return
				}
				st, ok := x.Ins.(*ssa.Store)
				if !ok {
					return
				}
				k, ok := storeKey(st.Addr)
				if !ok || k != slot {
					return
				}
				if c, ok := st.Val.(*ssa.Const); !ok || c.Value != nil {
					return
				}
				n++
				key := siteKey(p, x.Ins)
				retired := false
				for h := range x.St.Hist {
					h = core.Plain(h)
					if strings.HasPrefix(h, "CompareAndSwapUint32(&") && strings.Contains(h, ".refCount,0,4294967295)") && strings.HasSuffix(h, " == true") {
						retired = true
					}
				}
				switch {
				case retired:
					r.Hold(rule, key, x.Pos(), "manager tombstoned before it leaves the table")
				case x.Get("inSlowMap") != "":
					r.Hold(rule, key, x.Pos(), "manager "+x.Get("inSlowMap")+" inserted into the slow map first")
				default:
					r.Violate(rule, key, x.Pos(), "the key's fast slot is cleared while its manager is still live and not yet in the slow map: in the window the key is in neither table, a concurrent request builds a second manager for it and both admit holders", x.St.Trace)
				}
			},
		})
		ex.Run(fn, nil)
		if ex.Imprecise != "" {
			r.Fail("C01/R8 %s: %s", name, ex.Imprecise)
		}
	}
	if n == 0 {
		r.Fail("C01/R8: no clearing store of FastKeyValue.manager found")
	}
}
