package rules

import (
	"fmt"
	"go/token"
	"go/types"
	"regexp"
	"sort"
	"strconv"
	"strings"

	"golang.org/x/tools/go/ssa"

	"slockverif/internal/core"
)

func init() {
	Registry["C05"] = checkC05
	Registry["C06"] = checkC06
}

// ---------------------------------------------------------------------------
// Shared: deadline formula rule (R1)

type deadlineSpec struct {
	rule     string
	field    core.FieldKey // Lock.timeoutTime / Lock.expriedTime
	amount   string        // "Timeout" / "Expried"
	flagName string        // "TimeoutFlag" / "ExpriedFlag"
	floor    int
	// tabled exceptions: function -> reason, matched on the stored value's shape
	exceptions map[string]map[string]string
}

// deadlineRule checks every store to spec.field in package server.
func deadlineRule(p *core.Prog, r *core.Report, sp deadlineSpec) {
	minute := fmt.Sprint(mustConst(p, r, "protocol", "TIMEOUT_FLAG_MINUTE_TIME"))
	ms := fmt.Sprint(mustConst(p, r, "protocol", "TIMEOUT_FLAG_MILLISECOND_TIME"))
	unlimited := fmt.Sprint(mustConst(p, r, "protocol", "EXPRIED_FLAG_UNLIMITED_EXPRIED_TIME"))
	if m2 := fmt.Sprint(mustConst(p, r, "protocol", "EXPRIED_FLAG_MINUTE_TIME")); m2 != minute {
		r.Fail("%s: minute flag differs between timeout and expiry flags (%s vs %s)", sp.rule, minute, m2)
	}
	startKey := fk("server.Lock", "startTime")
	for _, fn := range p.FuncsIn("server") {
		has := false
		for _, b := range fn.Blocks {
			for _, ins := range b.Instrs {
				if st, ok := ins.(*ssa.Store); ok {
					if k, ok := storeKey(st.Addr); ok && k == sp.field {
						has = true
					}
				}
			}
		}
		if !has {
			continue
		}
		fname := core.FuncName(fn)
		top := fn
		ex := core.NewExplorer(p, core.Hooks{
			// see through pure integer helpers (a formula extracted into a function)
			Inline: func(x *core.X, callee *ssa.Function) bool {
				if !core.InModule(callee) || len(p.MayWrite(callee)) != 0 || callee.Signature.Results().Len() != 1 {
					return false
				}
				b, ok := callee.Signature.Results().At(0).Type().Underlying().(*types.Basic)
				return ok && b.Info()&types.IsInteger != 0
			},
			ResolvePhi: func(phi *ssa.Phi) bool {
				if phi.Parent() == top {
					return false
				}
				b, ok := phi.Type().Underlying().(*types.Basic)
				return ok && b.Info()&types.IsInteger != 0
			},
			Track: func(x *core.X, a core.Atom) bool {
				return strings.Contains(a.L, sp.flagName+" & ") || strings.Contains(a.L, "TimeoutFlag & "+ms+")") && sp.flagName == "TimeoutFlag"
			},
			Instr: func(x *core.X) {
				st, ok := x.Ins.(*ssa.Store)
				if !ok || !x.Top() {
					return
				}
				k, ok := storeKey(st.Addr)
				if !ok {
					return
				}
				if k == startKey {
					v := core.Plain(x.Canon(st.Val).S)
					if strings.HasSuffix(v, ".currentTime") {
						base := strings.TrimSuffix(strings.TrimPrefix(x.Canon(st.Addr).S, "&"), ".startTime")
						x.Set("start:"+core.Plain(base), "1")
					}
					return
				}
				if k != sp.field {
					return
				}
				// zero-initialisation of a freshly allocated object (a composite literal):
				// not a deadline, the object is not live yet
				if fa, ok := st.Addr.(*ssa.FieldAddr); ok {
					if _, fresh := fa.X.(*ssa.Alloc); fresh {
						if c, ok := st.Val.(*ssa.Const); ok && c.Value != nil && c.Int64() == 0 {
							return
						}
					}
				}
				key := siteKey(p, x.Ins)
				val := core.Plain(x.Canon(st.Val).S)
				lock := core.Plain(strings.TrimSuffix(strings.TrimPrefix(x.Canon(st.Addr).S, "&"), "."+sp.field.Field))
				if reason, ok := sp.exceptions[fname][shapeOf(val)]; ok {
					r.Hold(sp.rule, key, x.Pos(), "tabled: "+reason)
					return
				}
				if val == "9223372036854775807" {
					if sp.amount == "Expried" && histHas(x, sp.flagName+" & "+unlimited+") != 0") {
						r.Hold(sp.rule, key, x.Pos(), "unlimited expiry sentinel")
					} else {
						r.Violate(sp.rule, key, x.Pos(), "never-expiring sentinel stored without the unlimited-expiry flag on the path", x.St.Trace)
					}
					return
				}
				sum, one, ok1 := splitTop(val, "+")
				start, term, ok2 := splitTop(sum, "+")
				if !ok1 || !ok2 || one != "1" {
					r.Violate(sp.rule, key, x.Pos(), "deadline "+val+" is not of the form start + T*unit + 1 (without the +1 a second-granular clock ends the period up to 1s early)", x.St.Trace)
					return
				}
				// start: current time, or the lock's own startTime set from it on this path
				okStart := strings.HasSuffix(start, ".currentTime")
				if start == lock+".startTime" {
					okStart = x.Get("start:"+lock) == "1" || fname == "server.(*LockDB).DoAckLock" || fname == "server.(*LockDB).checkMillisecondTimeOut" || fname == "server.(*LockDB).checkMillisecondExpried"
				}
				if !okStart {
					r.Violate(sp.rule, key, x.Pos(), "deadline starts from "+start+", which is not the current time (nor the lock's startTime set from it on this path): a queued request would have its period counted from queueing, not from the grant", x.St.Trace)
					return
				}
				// term and unit
				unit := periodUnit(term, sp.amount)
				if unit == "" {
					r.Violate(sp.rule, key, x.Pos(), "period term "+term+" is not int64("+sp.amount+"), int64("+sp.amount+")*60 or (int64("+sp.amount+")+999)/1000 (widen before scaling: a uint16 product wraps)", x.St.Trace)
					return
				}
				isMin := histHas(x, sp.flagName+" & "+minute+") != 0")
				notMin := histHas(x, sp.flagName+" & "+minute+") == 0")
				isMs := histHas(x, sp.flagName+" & "+ms+") != 0")
				notMs := histHas(x, sp.flagName+" & "+ms+") == 0")
				okUnit := false
				switch unit {
				case "minute":
					okUnit = isMin && notMs
				case "second":
					okUnit = notMin && notMs
				case "millisecond":
					okUnit = isMs || strings.Contains(fname, "checkMillisecond")
				case "millisecond-truncated":
					r.Violate(sp.rule, key, x.Pos(), "the millisecond period is converted to whole seconds by a truncating division ("+term+"): the +1 only covers the truncation of the start second, so a period of q*1000+r ms ends up to r ms early (3999 ms queued at x.8 s ends after 3.2 s); it has to be rounded up", x.St.Trace)
					return
				}
				if !okUnit {
					r.Violate(sp.rule, key, x.Pos(), fmt.Sprintf("%s formula used on a path with flags minute=%v/%v millisecond=%v/%v", unit, isMin, notMin, isMs, notMs), x.St.Trace)
					return
				}
				r.Hold(sp.rule, key, x.Pos(), unit+" formula: "+val)
			},
		})
		ex.Run(fn, nil)
		if ex.Imprecise != "" {
			r.Fail("%s %s: %s", sp.rule, fname, ex.Imprecise)
		}
	}
}

// periodUnit classifies the period term of a deadline formula.
func periodUnit(term, amount string) string {
	isAmt := func(s string) bool { return strings.HasSuffix(s, "."+amount) }
	if in, ok := unwrapCall(term, "int64"); ok {
		if isAmt(in) {
			return "second"
		}
		if l, rr, ok := splitTop(in, "/"); ok && isAmt(l) && rr == "1000" {
			return "millisecond-truncated"
		}
		return ""
	}
	if l, rr, ok := splitTop(term, "*"); ok && rr == "60" {
		if in, ok := unwrapCall(l, "int64"); ok && isAmt(in) {
			return "minute"
		}
	}
	if l, rr, ok := splitTop(term, "/"); ok && rr == "1000" {
		if in, ok := unwrapCall(l, "int64"); ok && isAmt(in) {
			return "millisecond-truncated"
		}
		// rounded up: (int64(amount) + 999) / 1000
		if a, b, ok := splitTop(l, "+"); ok && b == "999" {
			if in, ok := unwrapCall(a, "int64"); ok && isAmt(in) {
				return "millisecond"
			}
		}
	}
	return ""
}

func histHas(x *core.X, suffix string) bool {
	for h := range x.St.Hist {
		if strings.HasSuffix(h, suffix) {
			return true
		}
	}
	return false
}

// shapeOf abstracts a stored value for the exception tables.
func shapeOf(v string) string {
	switch {
	case v == "0":
		return "zero"
	case strings.HasSuffix(v, ".checkTimeoutTime") || strings.HasSuffix(v, ".checkExpriedTime"):
		return "clamp-to-sweeper"
	case regexp.MustCompile(`^\([^()]+\.currentTime \+ 30\)$`).MatchString(v):
		return "now+30"
	case regexp.MustCompile(`^\([^()]+\.currentTime \+ int64\([^()]+\)\)$`).MatchString(v):
		return "now+amount"
	}
	return "other"
}

// ---------------------------------------------------------------------------
// Shared: never-early guard in the second-wheel sweepers (R2), wheel
// constants (R3), long-table sweep completeness.

func sweeperRule(p *core.Prog, r *core.Report, rule, fnName, deadline, tomb string) {
	fn := mustFunc(p, r, fnName)
	if fn == nil {
		return
	}
	now := fn.Params[2].Name()
	phis := map[string]*ssa.Phi{}
	for _, b := range fn.Blocks {
		for _, ins := range b.Instrs {
			if ph, ok := ins.(*ssa.Phi); ok {
				phis[ph.Name()] = ph
			}
		}
	}
	lenSeeded := func(op string) bool {
		// op is "phi@:tN": does one of its edges come from LongWaitLockQueue.Len()?
		i := strings.LastIndex(op, ":")
		if !strings.HasPrefix(op, "phi@") || i < 0 {
			return false
		}
		ph := phis[op[i+1:]]
		if ph == nil {
			return false
		}
		for _, e := range ph.Edges {
			if c, ok := e.(*ssa.Call); ok {
				if cal := c.Common().StaticCallee(); cal != nil && cal.Name() == "Len" && recvName(cal) == "LongWaitLockQueue" {
					return true
				}
			}
		}
		return false
	}
	ex := core.NewExplorer(p, core.Hooks{
		Track: func(x *core.X, a core.Atom) bool {
			s := core.Plain(a.String())
			return strings.Contains(s, "."+deadline) || strings.Contains(s, "."+tomb)
		},
		Branch: func(x *core.X, a core.Atom) {
			// count-driven exit of the long-table loop
			if a.Op == "<=" && a.R == "0" && lenSeeded(a.L) {
				x.Set("lenexit", "1")
			}
		},
		Instr: func(x *core.X) {
			if !x.Top() {
				return
			}
			callee := core.StaticCallee(x.Ins)
			if callee == nil {
				return
			}
			switch {
			case callee.Name() == "Pop" && recvName(callee) == "LockQueue":
				// wheel pop (the "do" queue pops are outside the mutex and re-popped later)
				if held2(x) {
					x.Set("src", "wheel")
				}
			case callee.Name() == "Pop" && recvName(callee) == "LongWaitLockQueue":
				x.Set("src", "long")
				x.Set("lenexit", "")
			case callee.Name() == "Push" && recvName(callee) == "LockQueue":
				lk := core.Plain(argCanon(x, x.Ins, 1))
				key := siteKey(p, x.Ins)
				if x.Get("src") == "wheel" {
					if x.St.Facts.HasPlain(lk + "." + deadline + " <= " + now) {
						r.Hold(rule, key, x.Pos(), "wheel entry selected only when its deadline has passed")
					} else {
						r.Violate(rule, key, x.Pos(), "wheel entry handed to the do-queue without the test "+deadline+" <= now: it can fire early", x.St.Trace)
					}
				} else {
					r.Hold(rule, key, x.Pos(), "long-table entry (keyed by its exact deadline)")
				}
			case callee.Name() == "FreeLongWaitLockQueue":
				key := siteKey(p, x.Ins)
				if x.Get("lenexit") == "1" {
					r.Hold(rule, key, x.Pos(), "table retired after Len() pops (holes left by Remove are skipped, not treated as the end)")
				} else {
					r.Violate(rule, key, x.Pos(), "long-wait table retired although its sweep loop is not driven by the table's Len(): entries behind a hole left by Remove would be dropped without ever firing", x.St.Trace)
				}
			}
			trackLocks(x)
		},
	})
	ex.NoHist = true
	ex.Run(fn, nil)
	if ex.Imprecise != "" {
		r.Fail("%s %s: %s", rule, fnName, ex.Imprecise)
	}
}

func held2(x *core.X) bool { return x.Get("L:shard") == "1" }

func wheelConstants(p *core.Prog, r *core.Report, rule, prefix string, extra bool) {
	length := mustConst(p, r, "server", prefix+"_QUEUE_LENGTH")
	mask := mustConst(p, r, "server", prefix+"_QUEUE_LENGTH_MASK")
	maxWait := mustConst(p, r, "server", prefix+"_QUEUE_MAX_WAIT")
	chk := func(key string, ok bool, msg string) {
		if ok {
			r.Hold(rule, "constants: "+key, "server/config.go", "")
		} else {
			r.Violate(rule, "constants: "+key, "server/config.go", msg, nil)
		}
	}
	chk(prefix+" length is a power of two", length > 0 && length&(length-1) == 0, fmt.Sprintf("%s_QUEUE_LENGTH=%d is not a power of two (slot = time & mask)", prefix, length))
	chk(prefix+" mask == length-1", mask == length-1, fmt.Sprintf("mask %d != length-1 %d", mask, length-1))
	chk(prefix+" max wait < length", maxWait < length, fmt.Sprintf("back-off %d reaches beyond the %d-slot wheel: an entry would land behind the sweeper", maxWait, length))
	if extra {
		chk(prefix+" max wait + 2 <= 10", maxWait+2 <= 10, fmt.Sprintf("a shortened deadline is noticed only after the re-check back-off (%d s): exceeds the 10 s bound", maxWait+2))
	}
}

// slotRule: the wheel slot chosen by AddTimeOut/AddExpried is never behind the sweeper.
func slotRule(p *core.Prog, r *core.Report, rule, fnName, check, deadline, counter string) {
	fn := mustFunc(p, r, fnName)
	if fn == nil {
		return
	}
	self, lk := fn.Params[0].Name(), fn.Params[1].Name()
	ck := self + "." + check
	dl := lk + "." + deadline
	ex := core.NewExplorer(p, core.Hooks{
		ResolvePhi: func(phi *ssa.Phi) bool {
			b, ok := phi.Type().Underlying().(*types.Basic)
			return ok && b.Info()&types.IsInteger != 0
		},
		Track: func(x *core.X, a core.Atom) bool { return strings.Contains(core.Plain(a.String()), check) },
		Instr: func(x *core.X) {
			callee := core.StaticCallee(x.Ins)
			if callee == nil || callee.Name() != "Push" || recvName(callee) != "LockQueue" || !x.Top() {
				return
			}
			recv := core.Plain(argCanon(x, x.Ins, 0))
			// self.xxxLocks[(slot & mask)][...]
			i := strings.Index(recv, "[(")
			j := strings.Index(recv, " & ")
			if i < 0 || j < i {
				return
			}
			slot := recv[i+2 : j]
			key := siteKey(p, x.Ins) + " slot=" + stable(slot)
			ok := false
			switch {
			case slot == ck:
				ok = true
			case strings.HasPrefix(slot, "("+ck+" + int64("+lk+"."+counter+")"):
				ok = true
			case slot == dl && (x.Passed(ck + " <= " + dl)):
				ok = true
			}
			if ok {
				r.Hold(rule, key, x.Pos(), "slot is at or ahead of the sweeper")
			} else {
				r.Violate(rule, key, x.Pos(), "wheel slot "+slot+" may lie behind the sweeper position "+ck+" (entry would wait a whole wheel turn)", x.St.Trace)
			}
		},
	})
	ex.Run(fn, nil)
}

// ---------------------------------------------------------------------------
// C05

func checkC05(p *core.Prog, r *core.Report) {
	r.Explanation = "Decides structural necessary conditions of wait timeouts: (R1) every store to a waiter's deadline is now + T*unit + 1 with the unit selected by the matching flag tests on the path and the period widened to int64 before scaling (tabled: keep-alive re-arm, clamp to the sweeper position); (R2) the second-wheel sweeper hands an entry to the timeout queue only on timeoutTime <= now (never early) and the long-wait table is swept Len() times before it is retired (holes are skipped, not taken as the end); (R3) wheel constants (power of two, mask, back-off < length) and the slot chosen by AddTimeOut is never behind the sweeper; (R4) a request is queued only with Timeout > 0; otherwise it is answered TIMEOUT once (C03-R1) and its lock object freed; (R5) a sweeper re-arms an entry only after testing its tombstone clear (the Add* functions reset it). (R9) the millisecond sweep hands every waiter whose Timeout is at or beyond the millisecond wheel's modulus over to the second wheel (threshold of the guarding comparison <= the modulus read from AddMillisecondTimeOut), so a slot that came round early does not fire it. NOT decided: the upper bound T+2 s and eventual firing (sweeper liveness, scheduling), hand-over timing between wheel, long table and millisecond wheel."
	r.Assumptions = []string{"Go type checker and go/ssa are correct for /repo", "the server clock LockDB.currentTime is second-granular and monotone"}
	deadlineRule(p, r, deadlineSpec{rule: "C05/R1", field: fk("server.Lock", "timeoutTime"), amount: "Timeout", flagName: "TimeoutFlag",
		exceptions: map[string]map[string]string{
			"server.NewLock":              {"zero": "constructor; GetOrNewLock sets the deadline"},
			"server.(*LockDB).AddTimeOut": {"clamp-to-sweeper": "raises a stale deadline to the sweeper's position (only ever later)"},
			"server.(*LockDB).doTimeOut":  {"now+amount": "keep-alive re-arm (keeplive flag is outside the claimed flag set)"},
		}})
	r.Rule("C05/R1", "every store to Lock.timeoutTime is now + T*unit + 1 with matching unit flags", 3)
	r.Rule("C05/R2", "never-early guard in checkTimeTimeOut; long table swept Len() times before retirement", 3)
	sweeperRule(p, r, "C05/R2", "server.(*LockDB).checkTimeTimeOut", "timeoutTime", "timeouted")
	r.Rule("C05/R3", "timeout wheel constants and slot choice", 4)
	wheelConstants(p, r, "C05/R3", "TIMEOUT", false)
	slotRule(p, r, "C05/R3", "server.(*LockDB).AddTimeOut", "checkTimeoutTime", "timeoutTime", "timeoutCheckedCount")
	c05R4(p, r)
	rearmRule(p, r, "C05/R5", []string{"server.(*LockDB).checkTimeTimeOut", "server.(*LockDB).checkMillisecondTimeOut"}, "TimeOut", "timeouted")
	msHandOverRule(p, r, "C05/R9", "server.(*LockDB).checkMillisecondTimeOut", "server.(*LockDB).AddMillisecondTimeOut", "AddTimeOut", "Timeout")
}

func c05R4(p *core.Prog, r *core.Report) {
	const rule = "C05/R4"
	r.Rule(rule, "AddWaitLock is reached only with Timeout > 0; the Timeout==0 tail answers TIMEOUT and frees the lock object", 3)
	for _, name := range []string{"server.(*LockDB).Lock", "server.(*LockDB).addUnlockLockCommandToWaitLock"} {
		fn := mustFunc(p, r, name)
		if fn == nil {
			continue
		}
		ex := core.NewExplorer(p, core.Hooks{
			Track: func(x *core.X, a core.Atom) bool {
				return strings.HasSuffix(core.Plain(a.R), ".Timeout") || strings.HasSuffix(core.Plain(a.L), ".Timeout")
			},
			Instr: func(x *core.X) {
				if !x.Top() {
					return
				}
				if calleeIs(x.Ins, "LockManager", "AddWaitLock") {
					key := siteKey(p, x.Ins)
					ok := false
					for h := range x.St.Hist {
						if strings.HasPrefix(h, "0 < ") && strings.HasSuffix(h, ".Timeout") {
							ok = true
						}
					}
					if ok {
						r.Hold(rule, key, x.Pos(), "queued only with Timeout > 0")
					} else {
						r.Violate(rule, key, x.Pos(), "request queued without the test Timeout > 0: a zero-timeout request would wait instead of being answered TIMEOUT at once", x.St.Trace)
					}
				}
				if calleeIs(x.Ins, "LockManager", "FreeLock") {
					x.Set("freed", "1")
				}
				if name == "server.(*LockDB).Lock" {
					if rq, res, _, ok := replyCall(x, x.Ins); ok && rq == fn.Params[2].Name() && res == "8" {
						// TIMEOUT tail after the lock object was created
						for h := range x.St.Hist {
							if strings.HasSuffix(h, ".Timeout <= 0") {
								key := siteKey(p, x.Ins) + " (zero-timeout tail)"
								if x.Get("freed") == "1" {
									r.Hold(rule, key, x.Pos(), "lock object freed, nothing left queued")
								} else {
									r.Violate(rule, key, x.Pos(), "zero-timeout request answered TIMEOUT but its lock object is not freed", x.St.Trace)
								}
							}
						}
					}
				}
			},
		})
		ex.Run(fn, nil)
	}
}

// ---------------------------------------------------------------------------
// C06

func checkC06(p *core.Prog, r *core.Report) {
	r.Explanation = "Decides structural necessary conditions of hold expiry: (R1) every store to a hold's deadline is start + E*unit + 1 (start = current time, or the lock's startTime set from the current time on the same path) with the unit selected by the matching flag tests and the period widened before scaling, or the never-expiring sentinel under the unlimited flag (tabled: not-yet-granted zero, keep-alive and follower re-arm, clamp to the sweeper); (R2) the sweeper hands a wheel entry to the expiry queue only on expriedTime <= now, and sweeps the long table Len() times before retiring it; (R3) wheel constants incl. back-off+2 <= 10 and the slot chosen by AddExpried is never behind the sweeper; (R5) doExpried's effect order on the live path: tombstone, depth subtraction, RemoveLock under the mutex, then one EXPRIED reply and the wake-up pass; (R6) when an update or re-lock changes the deadline of a hold that sits in the long-wait table, the entry is removed under its old deadline and re-inserted (with its reference) - skipped only when the deadline is unchanged; (R7) a sweeper re-arms an entry only after testing its tombstone clear; (R8) a recycled long-wait bucket has every field re-assigned that freeing it overwrote; (R9) the millisecond sweep compares a field an update rewrites before it ends a hold (it does not: known finding). (R10) the millisecond expiry sweep hands every hold whose Expried is at or beyond the wheel's modulus over to the second wheel (same threshold rule as C05/R9). NOT decided: the upper bounds E+2 s / 10 s (sweeper liveness), behaviour across the 16-slot wrap under load."
	r.Assumptions = []string{"Go type checker and go/ssa are correct for /repo", "the server clock LockDB.currentTime is second-granular and monotone"}
	deadlineRule(p, r, deadlineSpec{rule: "C06/R1", field: fk("server.Lock", "expriedTime"), amount: "Expried", flagName: "ExpriedFlag",
		exceptions: map[string]map[string]string{
			"server.NewLock":                     {"zero": "constructor; AddLock sets the deadline at grant time"},
			"server.(*LockManager).GetOrNewLock": {"zero": "not granted yet; AddLock sets the deadline at grant time"},
			"server.(*LockDB).AddExpried":        {"clamp-to-sweeper": "raises a stale deadline to the sweeper's position (only ever later)"},
			"server.(*LockDB).doExpried":         {"now+amount": "keep-alive re-arm (keeplive flag is outside the claimed flag set)", "now+30": "follower waits for the leader's record (C10-R4)"},
		}})
	r.Rule("C06/R1", "every store to Lock.expriedTime is start + E*unit + 1 with matching unit flags, or the unlimited sentinel", 6)
	r.Rule("C06/R2", "never-early guard in checkTimeExpried; long table swept Len() times before retirement", 3)
	sweeperRule(p, r, "C06/R2", "server.(*LockDB).checkTimeExpried", "expriedTime", "expried")
	r.Rule("C06/R3", "expiry wheel constants and slot choice", 5)
	wheelConstants(p, r, "C06/R3", "EXPRIED", true)
	slotRule(p, r, "C06/R3", "server.(*LockDB).AddExpried", "checkExpriedTime", "expriedTime", "expriedCheckedCount")
	c06R5(p, r)
	c06R6(p, r)
	c06R8(p, r)
	c06R9(p, r)
	rearmRule(p, r, "C06/R7", []string{"server.(*LockDB).checkTimeExpried", "server.(*LockDB).checkMillisecondExpried"}, "Expried", "expried")
	msHandOverRule(p, r, "C06/R10", "server.(*LockDB).checkMillisecondExpried", "server.(*LockDB).AddMillisecondExpried", "AddExpried", "Expried")
}

func c06R5(p *core.Prog, r *core.Report) {
	const rule = "C06/R5"
	r.Rule(rule, "doExpried live path: tombstone -> depth subtraction -> RemoveLock (under the mutex) -> EXPRIED reply (after the mutex) -> wakeUpWaitLocks", 1)
	fn := mustFunc(p, r, "server.(*LockDB).doExpried")
	if fn == nil {
		return
	}
	resExp := fmt.Sprint(mustConst(p, r, "protocol", "RESULT_EXPRIED"))
	classes := map[string]*struct {
		pos, bad string
		path     []string
	}{}
	ex := core.NewExplorer(p, core.Hooks{
		Instr: func(x *core.X) {
			if !x.Top() {
				return
			}
			trackLocks(x)
			seq := x.Get("seq")
			mark := func(c string) {
				if held(x, "shard") {
					x.Set("seq", seq+c)
				} else {
					x.Set("seq", seq+strings.ToLower(c))
				}
			}
			switch t := x.Ins.(type) {
			case *ssa.Store:
				if k, ok := storeKey(t.Addr); ok {
					if k == fk("server.Lock", "expried") && x.Canon(t.Val).S == "true" {
						mark("T")
					}
					if k == lmLocked && signOf(t) == "-" {
						mark("D")
					}
				}
			case ssa.CallInstruction:
				if calleeIs(x.Ins, "LockManager", "RemoveLock") {
					mark("R")
				}
				if calleeIs(x.Ins, "LockDB", "wakeUpWaitLocks") {
					mark("W")
				}
				if _, res, _, ok := replyCall(x, x.Ins); ok && res == resExp {
					mark("E")
				}
			}
		},
		Exit: func(x *core.X, rets []core.Expr) {
			seq := x.Get("seq")
			if seq == "" {
				return
			}
			key := "server.(*LockDB).doExpried: path{" + seq + "}"
			c := classes[key]
			if c == nil {
				c = &struct {
					pos, bad string
					path     []string
				}{pos: x.Pos()}
				classes[key] = c
			}
			if seq != "TDRew" {
				c.bad = "expiry path performs " + seq + ", want TDRew (T=tombstone, D=free capacity, R=remove hold - under the mutex; e=EXPRIED notice, w=wake waiters - after it)"
				c.path = x.St.Trace
			}
		},
	})
	ex.Run(fn, nil)
	keys := make([]string, 0, len(classes))
	for k := range classes {
		keys = append(keys, k)
	}
	sort.Strings(keys)
	for _, k := range keys {
		if classes[k].bad != "" {
			r.Violate(rule, k, classes[k].pos, classes[k].bad, classes[k].path)
		} else {
			r.Hold(rule, k, classes[k].pos, "")
		}
	}
}

func c06R6(p *core.Prog, r *core.Report) {
	const rule = "C06/R6"
	r.Rule(rule, "an update/re-lock of a hold in the long-wait table moves its entry (RemoveLongExpried(deadline read before the update) + Add*Expried + refCount++) unless the deadline is unchanged", 4)
	fn := mustFunc(p, r, "server.(*LockDB).Lock")
	if fn == nil {
		return
	}
	ex := core.NewExplorer(p, core.Hooks{
		Track: func(x *core.X, a core.Atom) bool {
			s := core.Plain(a.String())
			return strings.Contains(s, ".longWaitIndex") || strings.Contains(s, ".expriedTime")
		},
		Instr: func(x *core.X) {
			if !x.Top() {
				return
			}
			if cl, acq, ok := trackLocks(x); ok && cl == "shard" && !acq {
				if u := x.Get("upd"); u != "" {
					parts := strings.SplitN(u, "|", 2)
					key, hold := parts[0], parts[1]
					moved := x.Get("rm") == hold && x.Get("add") == hold
					inLong, notLong := false, false
					for h := range x.St.Hist {
						if h == "0 < "+hold+".longWaitIndex" || h == hold+".longWaitIndex != 0" {
							inLong = true
						}
						if h == hold+".longWaitIndex <= 0" || h == hold+".longWaitIndex == 0" {
							notLong = true
						}
					}
					// "deadline unchanged": the path compared the deadline read before
					// the update with the one after it (two different values of the
					// same field), not a value with itself
					same := false
					for _, a := range x.St.Facts.All() {
						if a.Op == "==" && a.L != a.R && core.Plain(a.L) == core.Plain(a.R) && strings.HasSuffix(core.Plain(a.L), ".expriedTime") {
							same = true
						}
					}
					switch {
					case notLong && !inLong:
						r.Hold(rule, key+" {not in the long table}", x.Pos(), "nothing to move")
					case moved && x.Get("rmstale") == "1":
						r.Violate(rule, key+" {moved from the wrong slot}", x.Pos(), "the entry is removed under the deadline read after the update (the new one): it stays filed under its old deadline and the sweeper ends the hold then, before the renewed period has passed", x.St.Trace)
					case moved:
						r.Hold(rule, key+" {moved}", x.Pos(), "entry re-keyed under the new deadline")
					case same:
						r.Hold(rule, key+" {deadline unchanged}", x.Pos(), "no move needed")
					default:
						r.Violate(rule, key+" {not moved}", x.Pos(), "deadline of a long-table hold updated without moving its entry and without establishing that the deadline is unchanged: the sweeper ends the hold at the old deadline", x.St.Trace)
					}
					x.Set("upd", "")
					x.Set("rm", "")
					x.Set("add", "")
					x.Set("rmstale", "")
				}
				return
			}
			// order of deadline loads relative to the update, per path
			step := fmt.Sprintf("%06d", len(x.St.Trace)*1000+x.E.Steps%1000)
			if u, ok := x.Ins.(*ssa.UnOp); ok {
				if fa, ok := u.X.(*ssa.FieldAddr); ok && core.FieldKeyOf(fa.X.Type(), fa.Field) == fk("server.Lock", "expriedTime") {
					n, _ := strconv.Atoi(x.Get("clock"))
					x.Set("clock", strconv.Itoa(n+1))
					x.Set("ld:"+x.Fr.ID+":"+u.Name(), fmt.Sprintf("%06d", n+1))
				}
				return
			}
			_ = step
			callee := core.StaticCallee(x.Ins)
			switch {
			case isMethod(callee, "LockManager", "UpdateLockedLock"):
				hold := core.Plain(argCanon(x, x.Ins, 1))
				x.Set("upd", siteKey(p, x.Ins)+"|"+hold)
				n, _ := strconv.Atoi(x.Get("clock"))
				x.Set("clock", strconv.Itoa(n+1))
				x.Set("updstep", fmt.Sprintf("%06d", n+1))
			case isMethod(callee, "LockDB", "RemoveLongExpried"):
				hold := core.Plain(argCanon(x, x.Ins, 1))
				x.Set("rm", hold)
				// the slot key must be the deadline as it was before the update: a
				// register that outlived the update carries a snapshot mark
				if args := core.CallArgs(x.Ins); len(args) >= 3 && x.Get("upd") != "" && core.Plain(argCanon(x, x.Ins, 2)) == hold+".expriedTime" {
					if fid, name, ok := resolveLoad(x.Fr, args[2]); ok {
						if ld := x.Get("ld:" + fid + ":" + name); ld != "" && x.Get("updstep") != "" && len(ld) >= len(x.Get("updstep")) && ld > x.Get("updstep") {
							x.Set("rmstale", "1")
						}
					}
				}
			case isMethod(callee, "LockDB", "AddExpried"), isMethod(callee, "LockDB", "AddMillisecondExpried"):
				x.Set("add", core.Plain(argCanon(x, x.Ins, 1)))
			}
		},
	})
	ex.Run(fn, nil)
	if ex.Imprecise != "" {
		r.Fail("C06/R6: %s", ex.Imprecise)
	}
}

// resolveLoad follows a call argument back through the parameters of inlined
// frames to the load instruction that produced it (frame id, register name).
func resolveLoad(fr *core.Frame, v ssa.Value) (string, string, bool) {
	for depth := 0; depth < 6 && fr != nil; depth++ {
		switch t := v.(type) {
		case *ssa.UnOp:
			return fr.ID, t.Name(), true
		case *ssa.Parameter:
			if fr.Site == nil || fr.Parent == nil {
				return "", "", false
			}
			idx := -1
			for i, p := range fr.Fn.Params {
				if p == t {
					idx = i
				}
			}
			args := fr.Site.Common().Args
			if fr.Site.Common().IsInvoke() {
				args = append([]ssa.Value{fr.Site.Common().Value}, args...)
			}
			if idx < 0 || idx >= len(args) {
				return "", "", false
			}
			v, fr = args[idx], fr.Parent
		default:
			return "", "", false
		}
	}
	return "", "", false
}

// rearmRule (C05/R5, C06/R7): a sweeper that finds an entry not yet due puts it
// back on a wheel. The Add* functions reset the entry's tombstone
// (timeouted / expried = false), so re-arming an entry that was already
// answered - granted or cancelled while it sat on the wheel - resurrects it: it
// is answered a second time when its old deadline passes. Every re-arm in a
// sweeper is therefore on the not-tombstoned side of a test of that entry.
func rearmRule(p *core.Prog, r *core.Report, rule string, fns []string, kind, tomb string) {
	r.Rule(rule, "sweepers re-arm an entry (Add*"+kind+") only on a path that tested that entry's tombstone ("+tomb+") clear", 2)
	for _, name := range fns {
		fn := mustFunc(p, r, name)
		if fn == nil {
			continue
		}
		n := 0
		ex := core.NewExplorer(p, core.Hooks{
			Track: func(x *core.X, a core.Atom) bool { return strings.HasSuffix(core.Plain(a.L), "."+tomb) },
			Instr: func(x *core.X) {
				if !x.Top() {
					return
				}
				c := core.StaticCallee(x.Ins)
				if c == nil || recvName(c) != "LockDB" || !(c.Name() == "Add"+kind || c.Name() == "AddMillisecond"+kind) {
					return
				}
				n++
				lk := core.Plain(argCanon(x, x.Ins, 1))
				key := siteKey(p, x.Ins)
				if x.Passed(lk + "." + tomb + " == false") {
					r.Hold(rule, key, x.Pos(), "entry tested not answered before the re-arm")
				} else {
					r.Violate(rule, key, x.Pos(), "an entry is put back on a wheel without its tombstone having been tested clear: Add* resets the tombstone, so a request that was already answered (granted / cancelled / released) is answered again when its old deadline passes", x.St.Trace)
				}
			},
		})
		ex.Run(fn, nil)
		if ex.Imprecise != "" {
			r.Fail("%s %s: %s", rule, name, ex.Imprecise)
		}
		_ = n
	}
}

// c06R8: long-wait buckets are pooled. FreeLongWaitLockQueue overwrites the
// bucket's bookkeeping (lockTime, lockCount, freeCount) with "free" markers;
// GetLongWaitLockQueue has to write each of those fields again for the
// recycled bucket. lockTime in particular is the map key
// restructuringLong*Queue uses when a bucket empties: a stale one deletes the
// wrong entry and a later bucket is swept at an earlier deadline.
func c06R8(p *core.Prog, r *core.Report) {
	const rule = "C06/R8"
	r.Rule(rule, "GetLongWaitLockQueue re-assigns, for a recycled bucket, every field that FreeLongWaitLockQueue overwrote", 1)
	free := mustFunc(p, r, "server.(*LongWaitLockFreeQueue).FreeLongWaitLockQueue")
	get := mustFunc(p, r, "server.(*LongWaitLockFreeQueue).GetLongWaitLockQueue")
	if free == nil || get == nil {
		return
	}
	poisoned := map[string]bool{}
	for _, b := range free.Blocks {
		for _, ins := range b.Instrs {
			if st, ok := ins.(*ssa.Store); ok {
				if fa, ok := st.Addr.(*ssa.FieldAddr); ok {
					if k := core.FieldKeyOf(fa.X.Type(), fa.Field); k.Type == "server.LongWaitLockQueue" {
						poisoned[k.Field] = true
					}
				}
			}
		}
	}
	if len(poisoned) == 0 {
		r.Fail("C06/R8: FreeLongWaitLockQueue overwrites no field")
		return
	}
	n := 0
	ex := core.NewExplorer(p, core.Hooks{
		Inline: func(x *core.X, c *ssa.Function) bool {
			return core.InModule(c) && recvName(c) == "LongWaitLockFreeQueue"
		},
		Instr: func(x *core.X) {
			if st, ok := x.Ins.(*ssa.Store); ok {
				if fa, ok := st.Addr.(*ssa.FieldAddr); ok {
					if k := core.FieldKeyOf(fa.X.Type(), fa.Field); k.Type == "server.LongWaitLockQueue" {
						x.Set("as:"+k.Field, "1")
					}
				}
			}
		},
		Exit: func(x *core.X, rets []core.Expr) {
			if len(rets) != 1 || rets[0].S == "nil" || strings.HasPrefix(rets[0].S, "NewLongWaitLockQueue(") {
				return
			}
			n++
			var missing []string
			for f := range poisoned {
				if x.Get("as:"+f) != "1" {
					missing = append(missing, f)
				}
			}
			sort.Strings(missing)
			key := "server.(*LongWaitLockFreeQueue).GetLongWaitLockQueue: recycled bucket"
			if len(missing) == 0 {
				r.Hold(rule, key, x.Pos(), "bookkeeping re-initialised")
			} else {
				r.Violate(rule, key, x.Pos(), "a recycled bucket is returned with "+strings.Join(missing, ", ")+" still holding the value written when it was freed: the stale lockTime is used as the map key when the bucket empties, the wrong entry is deleted and a later bucket is swept at an earlier deadline (holds end early)", x.St.Trace)
			}
		},
	})
	ex.NoHist = true
	ex.Run(get, nil)
	if ex.Imprecise != "" {
		r.Fail("C06/R8: %s", ex.Imprecise)
	}
	if n == 0 {
		r.Fail("C06/R8: no recycled-bucket return found")
	}
}

// c06R9: an update or re-lock restarts a hold's period by rewriting its
// startTime / expriedTime; the timer entry filed for the old deadline stays
// where it is. The second-granular sweeper copes because it compares the
// entry's deadline with the clock before ending the hold (R2). The millisecond
// sweep must likewise consult one of the fields an update rewrites before it
// ends a hold; a sweep that looks only at the tombstone and at the request's
// constant Expried ends an updated hold at its original deadline.
func c06R9(p *core.Prog, r *core.Report) {
	const rule = "C06/R9"
	r.Rule(rule, "the millisecond expiry sweep compares a field that an update rewrites (Lock.expriedTime / Lock.startTime) before it ends a hold", 1)
	fn := mustFunc(p, r, "server.(*LockDB).checkMillisecondExpried")
	if fn == nil {
		return
	}
	restartable := map[core.FieldKey]bool{fk("server.Lock", "expriedTime"): true, fk("server.Lock", "startTime"): true}
	var derives func(v ssa.Value, d int) bool
	derives = func(v ssa.Value, d int) bool {
		if d > 6 {
			return false
		}
		switch t := v.(type) {
		case *ssa.UnOp:
			if fa, ok := t.X.(*ssa.FieldAddr); ok && restartable[core.FieldKeyOf(fa.X.Type(), fa.Field)] {
				return true
			}
		case *ssa.BinOp:
			return derives(t.X, d+1) || derives(t.Y, d+1)
		case *ssa.Convert:
			return derives(t.X, d+1)
		case *ssa.Phi:
			for _, e := range t.Edges {
				if derives(e, d+1) {
					return true
				}
			}
		}
		return false
	}
	found := ""
	ends := ""
	scan := func(f *ssa.Function) {
		for _, b := range f.Blocks {
			for _, ins := range b.Instrs {
				if bo, ok := ins.(*ssa.BinOp); ok {
					switch bo.Op {
					case token.LSS, token.LEQ, token.GTR, token.GEQ, token.EQL, token.NEQ:
						if derives(bo.X, 0) || derives(bo.Y, 0) {
							found = p.InstrPos(ins)
						}
					}
				}
				if calleeIs(ins, "LockDB", "doExpried") && ends == "" {
					ends = p.InstrPos(ins)
				}
			}
		}
	}
	scan(fn)
	for _, b := range fn.Blocks {
		for _, ins := range b.Instrs {
			if c := core.StaticCallee(ins); c != nil && p.IsNewFunc(c) && c.Blocks != nil {
				scan(c)
			}
		}
	}
	key := "server.(*LockDB).checkMillisecondExpried: updated hold not ended by its stale timer"
	switch {
	case ends == "":
		r.Fail("C06/R9: the millisecond sweep never ends a hold (doExpried call not found)")
	case found != "":
		r.Hold(rule, key, found, "the sweep compares the hold's restartable terms before ending it")
	default:
		r.Violate(rule, key, ends, "the millisecond sweep ends every entry that is not tombstoned without comparing any field an update rewrites (Lock.expriedTime, Lock.startTime): a hold with a millisecond expiry below the hand-over threshold whose period was restarted by an update or re-lock is still ended at its original deadline, before E has passed since the update", nil)
	}
}
