#!/bin/sh
# Build the checker offline from the sources in /verif (module cache only).
set -e
cd "$(dirname "$0")"
export GOFLAGS=-mod=mod GOPROXY=off GOSUMDB=off GOTOOLCHAIN=local
unset GOWORK
mkdir -p bin evidence out
go build -o bin/slockcheck ./cmd/slockcheck
echo "built bin/slockcheck"
